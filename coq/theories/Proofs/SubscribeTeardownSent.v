(* C07, layer 2: teardown reaches everyone, as a statement about what is SENT.
   Whenever a step removes a down stream from a client that stays a live
   member of a group, that step sent the client a `close` for that id or an
   offer carrying `replace` = that id.

   pushDownConn deletes the replaced stream first and tells the client about
   it either by the deferred closeDownConn or by the `replace` field of the
   offer that negotiate sends.  The corner: negotiate sends NO offer while an
   earlier offer of the same down connection is unanswered (have-local-offer),
   and the deferred renegotiation (handle_msg MAnswer) carries replace = "".
   So a push (u, replace r) served by a client that already holds the stream of
   u with an outstanding offer and still holds r would drop r silently.  It
   cannot happen: the client got the stream of u from an earlier push of u, and
   (queue order, [QInv]) the pushes of u queued for one client carry
   r, .., r, 0, .., 0 in this order, ending with the current `replace` field of
   u: the earlier push carried r as well and removed the stream r, which has
   ended and cannot come back ([HInv]). *)
From Coq Require Import List Bool Arith PeanoNat Lia.
From Galene Require Import Model.Subscribe Proofs.SubscribeFrame Proofs.SubscribeInv
  Proofs.SubscribeStep Proofs.SubscribeHeap Proofs.SubscribeOwn Proofs.SubscribeOut
  Proofs.SubscribeProps Proofs.SubscribeTeardown Proofs.SubscribeExact Proofs.SubscribeWitness.
Import ListNotations.

(* ------------------------------------------------------------------ *)
(* the ids of the down streams a client holds                          *)

Definition heldl (l : list down) (k : nat) : Prop := In k (map d_id l).
Definition held (w : world) (m k : nat) : Prop := heldl (c_down (w_cl w m)) k.

Lemma heldl_get_down : forall l k, heldl l k <-> get_down k l <> None.
Proof.
  intros l k. unfold heldl. split.
  - intros H E. apply get_down_none in E. contradiction.
  - intro H. destruct (in_dec Nat.eq_dec k (map d_id l)) as [X|X]; [exact X|].
    exfalso. apply H. apply get_down_none. exact X.
Qed.

Lemma heldl_remove : forall x l k, heldl (remove_down x l) k <-> heldl l k /\ k <> x.
Proof.
  intros x l k. unfold heldl. rewrite !in_map_iff. split.
  - intros [d [E H]]. apply in_remove_down in H. destruct H as [H1 H2]. split; [exists d; auto|congruence].
  - intros [[d [E H]] N]. exists d. split; [exact E|]. apply in_remove_down. split; [exact H|congruence].
Qed.

Lemma heldl_replace : forall d l k, heldl (replace_down d l) k <-> heldl l k.
Proof. intros. unfold heldl. rewrite map_id_replace_down. tauto. Qed.

Lemma heldl_app_one : forall l d k, heldl (l ++ [d]) k <-> heldl l k \/ k = d_id d.
Proof.
  intros. unfold heldl. rewrite map_app, in_app_iff. simpl. split.
  - intros [H|[H|[]]]; auto.
  - intros [H|H]; auto.
Qed.

(* the client was told that the stream k is gone *)
Definition told (k : nat) (l : list outmsg) : Prop :=
  In (OClose k) l \/ exists i lb s us, In (OOffer i lb k s us) l.

Lemma told_app_l : forall k l1 l2, told k l1 -> told k (l1 ++ l2).
Proof.
  intros k l1 l2 [H|[i [lb [s [us H]]]]]; [left|right; exists i, lb, s, us]; apply in_app_iff; auto.
Qed.

Lemma told_app_r : forall k l1 l2, told k l2 -> told k (l1 ++ l2).
Proof.
  intros k l1 l2 [H|[i [lb [s [us H]]]]]; [left|right; exists i, lb, s, us]; apply in_app_iff; auto.
Qed.

(* ------------------------------------------------------------------ *)
(* pushDownConn: which ids appear, which disappear, what is sent       *)

Lemma close_down_conn_eff : forall m x w,
  c_down (w_cl (close_down_conn m x false w) m) = remove_down x (c_down (w_cl w m)) /\
  c_out (w_cl (close_down_conn m x false w) m) = c_out (w_cl w m) ++ [OClose x].
Proof.
  intros. unfold close_down_conn. autorewrite with sub. rewrite Nat.eqb_refl. split; reflexivity.
Qed.

Lemma negotiate_eff : forall m d r w,
  (exists d2, c_down (w_cl (negotiate m d r w) m) = replace_down d2 (c_down (w_cl w m))) /\
  ((d_havelocal d = true /\ c_out (w_cl (negotiate m d r w) m) = c_out (w_cl w m)) \/
   (d_havelocal d = false /\ exists i lb s us,
      c_out (w_cl (negotiate m d r w) m) = c_out (w_cl w m) ++ [OOffer i lb r s us])).
Proof.
  intros. unfold negotiate. destruct (d_havelocal d); autorewrite with sub; rewrite ?Nat.eqb_refl.
  - split; [eexists; reflexivity|]. left. split; reflexivity.
  - split; [eexists; reflexivity|]. right. split; [reflexivity|]. do 4 eexists. reflexivity.
Qed.

Lemma replace_tracks_havelocal : forall d r l b d',
  replace_tracks d r l = (b, d') -> d_havelocal d' = d_havelocal d.
Proof.
  unfold replace_tracks. intros d r l b d'.
  destruct (filter _ r); destruct (filter (fun p => negb (mem_pair p r)) (d_tracks d));
    intro H; inversion H; subst; simpl; auto.
Qed.

Definition push_post (m : nat) (up : option nat) (r : nat) (w w' : world) : Prop :=
  exists l, c_out (w_cl w' m) = c_out (w_cl w m) ++ l /\
    (forall k, held w' m k -> held w m k \/
       exists u, up = Some u /\ k = uo_id (w_up w u) /\ uo_closed (w_up w u) = false) /\
    (forall k, held w m k -> ~ held w' m k ->
       told k l \/
       (k = r /\ r <> 0 /\ exists u d0, up = Some u /\
          get_down (uo_id (w_up w u)) (c_down (w_cl w m)) = Some d0 /\ d_havelocal d0 = true)).

Lemma push_effect : forall m id up ts r w,
  push_post m up r w (fst (push_down_conn m id up ts r w)).
Proof.
  intros m id up ts r w. unfold push_down_conn.
  set (w1 := if Nat.eqb r 0 then w else del_down m r w).
  set (gain := fun k : nat => exists u, up = Some u /\ k = uo_id (w_up w u) /\ uo_closed (w_up w u) = false).
  assert (O1 : c_out (w_cl w1 m) = c_out (w_cl w m)).
  { unfold w1. destruct (Nat.eqb r 0); autorewrite with sub; reflexivity. }
  assert (U1 : w_up w1 = w_up w) by (unfold w1; destruct (Nat.eqb r 0); reflexivity).
  assert (D1 : c_down (w_cl w1 m) = if Nat.eqb r 0 then c_down (w_cl w m) else remove_down r (c_down (w_cl w m))).
  { unfold w1. destruct (Nat.eqb r 0); autorewrite with sub; rewrite ?Nat.eqb_refl; reflexivity. }
  assert (HD1a : forall k, held w m k -> held w1 m k \/ (k = r /\ r <> 0)).
  { intros k Hk. unfold held. rewrite D1. destruct (Nat.eqb_spec r 0); [left; exact Hk|].
    destruct (Nat.eq_dec k r); [right; auto|left; apply heldl_remove; auto]. }
  assert (HD1b : forall k, held w1 m k -> held w m k).
  { intros k Hk. unfold held in Hk. rewrite D1 in Hk. destruct (Nat.eqb r 0); [exact Hk|].
    apply heldl_remove in Hk. tauto. }
  set (mid := fun (w'' : world) (l0 : list outmsg) =>
        c_out (w_cl w'' m) = c_out (w_cl w m) ++ l0 /\
        (forall k, held w'' m k -> held w1 m k \/ gain k) /\
        (forall k, held w1 m k -> held w'' m k \/ In (OClose k) l0)).
  assert (Fin1 : forall w'' l0, mid w'' l0 ->
            push_post m up r w (if Nat.eqb r 0 then w'' else close_down_conn m r false w'')).
  { intros w'' l0 [A [B C]]. destruct (Nat.eqb_spec r 0) as [e|n].
    - exists l0. split; [exact A|]. split.
      + intros k Hk. destruct (B k Hk) as [H|H]; [left; apply HD1b; exact H|right; exact H].
      + intros k Hk Hn. left. left. destruct (HD1a k Hk) as [H|[_ H]]; [|contradiction].
        destruct (C k H); [contradiction|assumption].
    - destruct (close_down_conn_eff m r w'') as [X1 X2].
      exists (l0 ++ [OClose r]). split; [rewrite X2, A, app_assoc; reflexivity|]. split.
      + intros k Hk. unfold held in Hk. rewrite X1 in Hk. apply heldl_remove in Hk. destruct Hk as [Hk _].
        destruct (B k Hk) as [H|H]; [left; apply HD1b; exact H|right; exact H].
      + intros k Hk Hn. left. left. apply in_app_iff.
        destruct (Nat.eq_dec k r) as [e|ne]; [right; subst; left; reflexivity|left].
        destruct (HD1a k Hk) as [H|[H _]]; [|contradiction].
        destruct (C k H) as [H'|H']; [|exact H']. exfalso. apply Hn. unfold held. rewrite X1.
        apply heldl_remove. split; assumption. }
  assert (Mid1 : mid w1 []).
  { split; [rewrite O1, app_nil_r; reflexivity|]. split; intros k Hk; left; exact Hk. }
  assert (MidClose : mid (close_down_conn m id false w1) [OClose id]).
  { destruct (close_down_conn_eff m id w1) as [X1 X2]. split; [rewrite X2, O1; reflexivity|]. split.
    - intros k Hk. unfold held in Hk. rewrite X1 in Hk. apply heldl_remove in Hk. left. tauto.
    - intros k Hk. destruct (Nat.eq_dec k id); [right; subst; left; reflexivity|left].
      unfold held. rewrite X1. apply heldl_remove. auto. }
  assert (MidSame : forall w2 w3 l0, mid w2 l0 ->
            (forall k, held w3 m k <-> held w2 m k) -> c_out (w_cl w3 m) = c_out (w_cl w2 m) -> mid w3 l0).
  { intros w2 w3 l0 [A [B C]] Hh Ho. split; [rewrite Ho; exact A|]. split.
    - intros k Hk. apply B. apply Hh. exact Hk.
    - intros k Hk. destruct (C k Hk); [left; apply Hh; assumption|right; assumption]. }
  assert (Fin2 : forall w3 d',
            mid w3 [] ->
            (d_havelocal d' = true -> r <> 0 -> exists u d0, up = Some u /\
               get_down (uo_id (w_up w u)) (c_down (w_cl w m)) = Some d0 /\ d_havelocal d0 = true) ->
            push_post m up r w (negotiate m d' r w3)).
  { intros w3 d' [A [B C]] Hhl.
    destruct (negotiate_eff m d' r w3) as [[d2 N1] N2].
    assert (Hh : forall k, held (negotiate m d' r w3) m k <-> held w3 m k).
    { intro k. unfold held. rewrite N1. apply heldl_replace. }
    rewrite app_nil_r in A.
    destruct N2 as [[Hl N2]|[Hl [i [lb [s [us N2]]]]]].
    - exists []. split; [rewrite N2, A, app_nil_r; reflexivity|]. split.
      + intros k Hk. apply Hh in Hk. destruct (B k Hk) as [H|H]; [left; apply HD1b; exact H|right; exact H].
      + intros k Hk Hn. destruct (HD1a k Hk) as [H|[H1 H2]].
        * exfalso. apply Hn. apply Hh. destruct (C k H) as [H'|[]]. exact H'.
        * right. split; [exact H1|]. split; [exact H2|]. apply Hhl; assumption.
    - exists [OOffer i lb r s us]. split; [rewrite N2, A; reflexivity|]. split.
      + intros k Hk. apply Hh in Hk. destruct (B k Hk) as [H|H]; [left; apply HD1b; exact H|right; exact H].
      + intros k Hk Hn. destruct (HD1a k Hk) as [H|[H1 H2]].
        * exfalso. apply Hn. apply Hh. destruct (C k H) as [H'|[]]. exact H'.
        * left. right. subst k. exists i, lb, s, us. left. reflexivity. }
  match goal with |- context [match fst ?s with _ => _ end] => destruct (fst s) as [|i0 sel] eqn:Esel end.
  - cbn [fst]. apply (Fin1 _ [OClose id]). exact MidClose.
  - destruct up as [u|]; [|cbn [fst]; apply (Fin1 _ [OClose id]); exact MidClose].
    unfold add_down_conn. rewrite U1.
    destruct (lookup (uo_id (w_up w u)) (c_up (w_cl w1 m))); [cbn [fst]; apply (Fin1 _ []); exact Mid1|].
    destruct (get_down (uo_id (w_up w u)) (c_down (w_cl w1 m))) as [d0|] eqn:Eg.
    + rewrite Eg. destruct (replace_tracks d0 _ _) as [changed d'] eqn:Er.
      destruct (replace_tracks_same _ _ _ _ _ Er) as [R1 [R2 R3]].
      assert (Mid3 : mid (set_down_entry m d' w1) []).
      { apply (MidSame w1); [exact Mid1| |autorewrite with sub; reflexivity].
        intro k. unfold held. autorewrite with sub. rewrite Nat.eqb_refl. apply heldl_replace. }
      destruct changed; cbn [fst]; [|apply (Fin1 _ []); exact Mid3].
      apply Fin2; [exact Mid3|]. intros Hl Hr. exists u, d0. split; [reflexivity|].
      assert (Hl0 : d_havelocal d0 = true).
      { rewrite <- (replace_tracks_havelocal _ _ _ _ _ Er). exact Hl. }
      split; [|exact Hl0].
      rewrite D1 in Eg. destruct (Nat.eqb_spec r 0); [contradiction|].
      destruct (Nat.eq_dec (uo_id (w_up w u)) r) as [e|ne].
      * rewrite e, get_down_remove_same in Eg. discriminate.
      * rewrite get_down_remove_other in Eg; auto.
    + destruct (uo_closed (w_up w u)) eqn:Ec; [cbn [fst]; apply (Fin1 _ []); exact Mid1|].
      set (dn := mkDown (uo_id (w_up w u)) u None [] false false false).
      set (w2 := upd_cl m (fun c => set_down (c_down c ++ [dn]) c) w1).
      assert (Eg2 : get_down (uo_id (w_up w u)) (c_down (w_cl w2 m)) = Some dn).
      { unfold w2, upd_cl. simpl. rewrite Nat.eqb_refl. simpl. rewrite get_down_app, Eg. simpl.
        rewrite Nat.eqb_refl. reflexivity. }
      rewrite Eg2. destruct (replace_tracks dn _ _) as [changed d'] eqn:Er.
      assert (Mid2 : mid w2 []).
      { destruct Mid1 as [A [B C]].
        assert (E2 : c_down (w_cl w2 m) = c_down (w_cl w1 m) ++ [dn]).
        { unfold w2, upd_cl. simpl. rewrite Nat.eqb_refl. reflexivity. }
        split; [|split].
        - unfold w2, upd_cl. simpl. rewrite Nat.eqb_refl. simpl. exact A.
        - intros k Hk. unfold held in Hk. rewrite E2 in Hk. apply heldl_app_one in Hk.
          destruct Hk as [Hk|Hk]; [left; exact Hk|right]. exists u. split; [reflexivity|]. split; [exact Hk|exact Ec].
        - intros k Hk. left. unfold held. rewrite E2. apply heldl_app_one. left. exact Hk. }
      assert (Mid3 : mid (set_down_entry m d' w2) []).
      { apply (MidSame w2); [exact Mid2| |autorewrite with sub; reflexivity].
        intro k. unfold held. autorewrite with sub. rewrite Nat.eqb_refl. apply heldl_replace. }
      destruct changed; cbn [fst]; [|apply (Fin1 _ []); exact Mid3].
      apply Fin2; [exact Mid3|]. intros Hl Hr. exfalso.
      rewrite (replace_tracks_havelocal _ _ _ _ _ Er) in Hl. discriminate.
Qed.

(* ------------------------------------------------------------------ *)
(* one step, seen from one client: which ids appear, which disappear   *)

(* k appears: m serves a queued push of the stream with id k *)
Definition gainc (m : nat) (o : op) (w : world) (k : nat) : Prop :=
  exists g id u ts r q,
    o = OpPump m /\ c_queue (w_cl w m) = APush g id (Some u) ts r :: q /\
    c_group (w_cl w m) = Some g /\ k = uo_id (w_up w u) /\ uo_closed (w_up w u) = false /\
    m < w_n w /\ c_dead (w_cl w m) = false.

(* the corner: m serves a push that replaces k, holds the pushed stream
   already, with an unanswered offer *)
Definition badc (m : nat) (o : op) (w : world) (k : nat) : Prop :=
  k <> 0 /\ exists g id u ts q d0,
    o = OpPump m /\ c_queue (w_cl w m) = APush g id (Some u) ts k :: q /\
    c_group (w_cl w m) = Some g /\
    get_down (uo_id (w_up w u)) (c_down (w_cl w m)) = Some d0 /\ d_havelocal d0 = true.

Definition act_post (m : nat) (o : op) (w w' : world) : Prop :=
  (forall k, held w' m k -> held w m k \/ gainc m o w k) /\
  (forall k, held w m k -> ~ held w' m k ->
     (exists l, c_out (w_cl w' m) = c_out (w_cl w m) ++ l /\ told k l) \/ badc m o w k).

Lemma act_ids : forall m o w w', (forall k, held w' m k <-> held w m k) -> act_post m o w w'.
Proof.
  intros m o w w' H. split.
  - intros k Hk. left. apply H. exact Hk.
  - intros k Hk Hn. exfalso. apply Hn. apply H. exact Hk.
Qed.

Lemma act_same : forall m o w w', c_down (w_cl w' m) = c_down (w_cl w m) -> act_post m o w w'.
Proof. intros m o w w' H. apply act_ids. intro k. unfold held. rewrite H. tauto. Qed.

Lemma act_keeps : forall m o w w', keeps m w w' -> act_post m o w w'.
Proof. intros m o w w' [H _]. apply act_same. exact H. Qed.

Lemma act_close : forall m o w w' x l',
  c_down (w_cl w' m) = remove_down x (c_down (w_cl w m)) ->
  c_out (w_cl w' m) = c_out (w_cl w m) ++ OClose x :: l' -> act_post m o w w'.
Proof.
  intros m o w w' x l' HD HO. split.
  - intros k Hk. left. unfold held in Hk. rewrite HD in Hk. apply heldl_remove in Hk. tauto.
  - intros k Hk Hn. left. exists (OClose x :: l'). split; [exact HO|]. left.
    destruct (Nat.eq_dec k x); [subst; left; reflexivity|].
    exfalso. apply Hn. unfold held. rewrite HD. apply heldl_remove. auto.
Qed.

Lemma act_close_down_conn : forall m o w x msg, act_post m o w (close_down_conn m x msg w).
Proof.
  intros. unfold close_down_conn. destruct msg.
  - apply (act_close m o w _ x [OError]); autorewrite with sub; rewrite ?Nat.eqb_refl; [reflexivity|].
    rewrite <- app_assoc. reflexivity.
  - apply (act_close m o w _ x []); autorewrite with sub; rewrite ?Nat.eqb_refl; reflexivity.
Qed.

Theorem step_act : forall w o m, Inv w ->
  c_group (w_cl (step w o) m) <> None -> c_dead (w_cl (step w o) m) = false ->
  act_post m o w (step w o).
Proof.
  intros w o m I.
  assert (Hdec : actor o = Some m \/ actor o <> Some m).
  { destruct (actor o) as [c|]; [|right; discriminate].
    destruct (Nat.eq_dec c m); [left; congruence|right; congruence]. }
  destruct Hdec as [Ha|Ha].
  2:{ intros _ _. destruct (step_passive w o m Ha) as [Hc _].
      destruct (core_fields _ _ Hc) as [_ [_ [_ [_ [_ [_ [D _]]]]]]]. apply act_same. exact D. }
  destruct o as [c msg|c|c|i|u k]; simpl in Ha; inversion Ha; subst c; clear Ha.
  - (* a message of m *)
    simpl.
    destruct (Nat.ltb m (w_n w) && negb (c_dead (w_cl w m))); [|intros _ _; apply act_same; reflexivity].
    destruct (handle_msg m msg w) as [w' e] eqn:E. unfold finish. cbn [fst snd].
    destruct e; [intros _ Hd; rewrite error_close_dead in Hd; discriminate|].
    assert (E' : w' = fst (handle_msg m msg w)) by (rewrite E; reflexivity). clear E. subst w'.
    destruct msg as [g user pres op0|g|req|id req|id label replace s|id|id|id ok|dest|dest give];
      cbv beta iota zeta delta [handle_msg].
    + intros _ _. destruct (c_group (w_cl w m)); cbn [fst]; apply act_same; [reflexivity|].
      rewrite upd_cl_same. reflexivity.
    + destruct (in_group g (w_cl w m)); cbn [fst]; [|intros _ _; apply act_same; reflexivity].
      intros Hg _. exfalso. apply Hg. apply leave_group_group.
    + intros _ _. destruct (c_group (w_cl w m)) as [g|]; cbn [fst]; [|apply act_same; reflexivity].
      apply act_same. autorewrite with sub. rewrite upd_cl_same. reflexivity.
    + intros _ _. destruct (get_down id (c_down (w_cl w m))) as [d|]; [|apply act_same; reflexivity].
      destruct (c_group (w_cl w m)) as [g|]; cbn [fst]; [|apply act_same; reflexivity].
      apply act_ids. intro k. unfold held. autorewrite with sub. rewrite Nat.eqb_refl. apply heldl_replace.
    + intros _ _. destruct (Nat.eqb id 0); cbn [fst]; [apply act_same; reflexivity|].
      destruct (c_present (w_cl w m)); cbn [fst]; [apply act_keeps; apply keeps_got_offer|].
      apply act_keeps. eapply keeps_trans; [|apply keeps_send]. eapply keeps_trans; [|apply keeps_send].
      destruct (Nat.eqb replace 0); [apply keeps_refl|apply keeps_del_up_conn'].
    + intros _ _. destruct (Nat.eqb id 0); cbn [fst]; apply act_keeps; [apply keeps_refl|apply keeps_del_up_conn'].
    + intros _ _. destruct (Nat.eqb id 0); cbn [fst]; [apply act_same; reflexivity|].
      apply act_close_down_conn.
    + intros _ _. destruct (Nat.eqb id 0); cbn [fst]; [apply act_same; reflexivity|].
      destruct (get_down id (c_down (w_cl w m))) as [d|] eqn:Eg; cbn [fst]; [|apply act_close_down_conn].
      destruct (ok && d_havelocal d); cbn [fst]; [|apply act_close_down_conn].
      destruct (d_neg d); cbn [fst].
      * apply act_ids. intro k. unfold held.
        destruct (negotiate_eff m (down_set_sig false true d) 0 (set_down_entry m (down_set_sig false true d) w))
          as [[d2 N1] _].
        rewrite N1. rewrite heldl_replace. autorewrite with sub. rewrite Nat.eqb_refl. apply heldl_replace.
      * apply act_ids. intro k. unfold held. autorewrite with sub. rewrite Nat.eqb_refl. apply heldl_replace.
    + intros _ _. destruct (c_group (w_cl w m)); cbn [fst]; [|apply act_keeps; apply keeps_send].
      destruct (c_op (w_cl w m) && member_of w _ dest); cbn [fst]; [|apply act_keeps; apply keeps_send].
      apply act_same. autorewrite with sub. reflexivity.
    + intros _ _. destruct (c_group (w_cl w m)); cbn [fst]; [|apply act_keeps; apply keeps_send].
      destruct (c_op (w_cl w m) && member_of w _ dest); cbn [fst]; [|apply act_keeps; apply keeps_send].
      apply act_same. autorewrite with sub. reflexivity.
  - (* one queued action of m *)
    simpl.
    destruct (Nat.ltb m (w_n w) && negb (c_dead (w_cl w m))) eqn:Eguard; [|intros _ _; apply act_same; reflexivity].
    apply andb_prop in Eguard. destruct Eguard as [Eg1 Eg2]. apply Nat.ltb_lt in Eg1. apply negb_true_iff in Eg2.
    destruct (c_queue (w_cl w m)) as [|a q] eqn:Eq; [intros _ _; apply act_same; reflexivity|].
    set (w0 := upd_cl m (set_queue q) w).
    assert (F0 : c_group (w_cl w0 m) = c_group (w_cl w m) /\ c_down (w_cl w0 m) = c_down (w_cl w m) /\
                 c_out (w_cl w0 m) = c_out (w_cl w m)).
    { unfold w0, upd_cl. simpl. rewrite Nat.eqb_refl. simpl. repeat split. }
    destruct F0 as [G0 [D0 O0]].
    destruct (handle_action m a w0) as [w' e] eqn:E. unfold finish. cbn [fst snd].
    destruct e; [intros _ Hd; rewrite error_close_dead in Hd; discriminate|].
    assert (E' : w' = fst (handle_action m a w0)) by (rewrite E; reflexivity). clear E. subst w'.
    intros _ _.
    assert (Same : forall w1, c_down (w_cl w1 m) = c_down (w_cl w0 m) -> act_post m (OpPump m) w w1).
    { intros w1 H. apply act_same. congruence. }
    destruct a as [g id up ts r|g t id|g give| |]; cbv beta iota zeta delta [handle_action].
    + destruct (in_group g (w_cl w0 m)) eqn:Hg; cbn [fst]; [|apply Same; reflexivity].
      apply in_group_eq in Hg. rewrite G0 in Hg.
      destruct (push_effect m id up ts r w0) as [l [A [B C]]].
      unfold held in *. rewrite D0 in *. split.
      * intros k Hk. destruct (B k Hk) as [H|[u [Hu [Hk' Hc]]]]; [left; exact H|right].
        subst up. exists g, id, u, ts, r, q. repeat split; auto.
      * intros k Hk Hn. destruct (C k Hk Hn) as [H|[H1 [H2 [u [d0 [Hu [H3 H4]]]]]]].
        -- left. exists l. split; [rewrite A, O0; reflexivity|exact H].
        -- right. subst up k. split; [exact H2|]. exists g, id, u, ts, q, d0. repeat split; auto.
    + destruct (in_group g (w_cl w0 m)); cbn [fst]; [|apply Same; reflexivity].
      fold (reqconns_fold g t id (c_up (w_cl w0 m)) w0).
      destruct (passive_reqconns_fold m g t id (c_up (w_cl w0 m)) w0) as [Hc _].
      destruct (core_fields _ _ Hc) as [_ [_ [_ [_ [_ [_ [D _]]]]]]]. apply Same. exact D.
    + destruct (in_group g (w_cl w0 m)); cbn [fst]; [|apply Same; reflexivity].
      apply Same. autorewrite with sub. rewrite upd_cl_same. reflexivity.
    + destruct (c_group (w_cl w0 m)); cbn [fst]; [|apply Same; reflexivity].
      destruct (c_present (w_cl w0 m)); cbn [fst]; [apply Same; reflexivity|].
      apply Same. destruct (keeps_unpresent_fold m (c_up (w_cl w0 m)) w0) as [H _]. exact H.
    + apply Same. reflexivity.
  - (* the connection of m ends *)
    simpl.
    destruct (Nat.ltb m (w_n w) && negb (c_dead (w_cl w m))); [|intros _ _; apply act_same; reflexivity].
    intros _ Hd. rewrite error_close_dead in Hd. discriminate.
Qed.

(* ------------------------------------------------------------------ *)
(* what a step appends to the queues (of every client, the actor's     *)
(* included): every push of a live stream carries the CURRENT `replace` *)
(* field of the stream                                                  *)

Lemma push_down_conn_queues : forall m id up ts r w x,
  c_queue (w_cl (fst (push_down_conn m id up ts r w)) x) = c_queue (w_cl w x).
Proof.
  intros m id up ts r w x. unfold push_down_conn.
  set (w1 := if Nat.eqb r 0 then w else del_down m r w).
  assert (H1 : c_queue (w_cl w1 x) = c_queue (w_cl w x)).
  { unfold w1. destruct (Nat.eqb r 0); autorewrite with sub; reflexivity. }
  assert (Hdef : forall w', c_queue (w_cl w' x) = c_queue (w_cl w x) ->
            c_queue (w_cl (if Nat.eqb r 0 then w' else close_down_conn m r false w') x) = c_queue (w_cl w x)).
  { intros w' H. destruct (Nat.eqb r 0); [exact H|]. unfold close_down_conn. autorewrite with sub. exact H. }
  assert (Hcl : c_queue (w_cl (close_down_conn m id false w1) x) = c_queue (w_cl w x)).
  { unfold close_down_conn. autorewrite with sub. exact H1. }
  assert (Hneg : forall d w', c_queue (w_cl w' x) = c_queue (w_cl w x) ->
            c_queue (w_cl (negotiate m d r w') x) = c_queue (w_cl w x)).
  { intros d w' H. unfold negotiate. destruct (d_havelocal d); autorewrite with sub; exact H. }
  match goal with |- context [match fst ?s with _ => _ end] => destruct (fst s) as [|i0 sel] end.
  - cbn [fst]. apply Hdef. exact Hcl.
  - destruct up as [u|]; [|cbn [fst]; apply Hdef; exact Hcl].
    unfold add_down_conn.
    destruct (lookup _ (c_up (w_cl w1 m))); [cbn [fst]; apply Hdef; exact H1|].
    destruct (get_down (uo_id (w_up w1 u)) (c_down (w_cl w1 m))).
    + destruct (get_down (uo_id (w_up w u)) (c_down (w_cl w1 m))); [|cbn [fst]; apply Hdef; exact H1].
      destruct (replace_tracks _ _ _) as [changed d'].
      destruct changed; cbn [fst]; [apply Hneg|apply Hdef]; autorewrite with sub; exact H1.
    + destruct (uo_closed (w_up w1 u)); [cbn [fst]; apply Hdef; exact H1|].
      match goal with |- context [get_down ?i (c_down (w_cl ?w2 m))] =>
        set (W2 := w2); destruct (get_down i (c_down (w_cl W2 m))) end.
      2:{ cbn [fst]. apply Hdef. unfold W2, upd_cl. simpl. destruct (Nat.eqb x m); exact H1. }
      assert (H2 : c_queue (w_cl W2 x) = c_queue (w_cl w x)).
      { unfold W2, upd_cl. simpl. destruct (Nat.eqb x m); exact H1. }
      destruct (replace_tracks _ _ _) as [changed d'].
      destruct changed; cbn [fst]; [apply Hneg|apply Hdef]; autorewrite with sub; exact H2.
Qed.

Section Grow.
Variable P : action -> Prop.
Hypothesis Pnone : forall g id ts r, P (APush g id None ts r).
Hypothesis Preq : forall g t id, P (AReqConns g t id).
Hypothesis Pperm : forall g b, P (AChangePerm g b).
Hypothesis Pchg : P APermsChanged.
Hypothesis Pkick : P AKick.
Variable w0 : world.
Hypothesis Psome : forall g id v ts, v < w_nup w0 ->
  P (APush g id (Some v) ts (uo_replace (w_up w0 v))).

Definition grows (w w' : world) : Prop :=
  forall m, exists l, c_queue (w_cl w' m) = c_queue (w_cl w m) ++ l /\ Forall P l.

Lemma g_refl : forall w, grows w w.
Proof. intros w m. exists []. rewrite app_nil_r. split; [reflexivity|constructor]. Qed.

Lemma g_trans : forall a b c, grows a b -> grows b c -> grows a c.
Proof.
  intros a b c H1 H2 m. destruct (H1 m) as [l1 [Q1 F1]]. destruct (H2 m) as [l2 [Q2 F2]].
  exists (l1 ++ l2). split; [rewrite Q2, Q1, app_assoc; reflexivity|apply Forall_app; auto].
Qed.

Lemma g_same : forall w w', (forall m, c_queue (w_cl w' m) = c_queue (w_cl w m)) -> grows w w'.
Proof. intros w w' H m. exists []. rewrite app_nil_r. split; [apply H|constructor]. Qed.

Lemma g_upd_cl : forall c f w, (forall x, c_queue (f x) = c_queue x) -> grows w (upd_cl c f w).
Proof. intros c f w H. apply g_same. intro m. unfold upd_cl. simpl. destruct (Nat.eqb m c); [apply H|reflexivity]. Qed.

Lemma g_enq : forall t a w, P a -> grows w (enq t a w).
Proof.
  intros t a w Ha m. autorewrite with sub. destruct (Nat.eqb m t).
  - exists [a]. split; [reflexivity|constructor; [exact Ha|constructor]].
  - exists []. split; [reflexivity|constructor].
Qed.

Lemma g_enq_all : forall ts a w, P a -> grows w (enq_all ts a w).
Proof.
  induction ts as [|t r IH]; intros a w Ha; [apply g_refl|]. rewrite enq_all_cons.
  eapply g_trans; [apply g_enq; exact Ha|apply IH; exact Ha].
Qed.

Lemma g_send : forall c x w, grows w (send c x w).
Proof. intros. apply g_same. intro m. autorewrite with sub. reflexivity. Qed.

Lemma g_upd_up : forall u f w, grows w (upd_up u f w).
Proof. intros. apply g_same. reflexivity. Qed.

Lemma g_set_timers : forall ts w, grows w (set_timers ts w).
Proof. intros. apply g_same. reflexivity. Qed.

Lemma g_del_up_conn' : forall c id push w, grows w (del_up_conn' c id push w).
Proof.
  intros c id push w. unfold del_up_conn', del_up_conn.
  destruct (lookup id (c_up (w_cl w c))); [|apply g_refl].
  assert (H : grows w (upd_up n up_set_closed (upd_cl c (fun cl => set_ups (remove_key id (c_up cl)) cl) w))).
  { eapply g_trans; [|apply g_upd_up]; [apply g_upd_cl; reflexivity]. }
  destruct push; [destruct (c_group (w_cl w c))|]; try exact H.
  eapply g_trans; [exact H|apply g_enq_all; apply Pnone].
Qed.

Lemma g_leave_fold : forall c l w, grows w (leave_fold c l w).
Proof.
  induction l as [|x r IH]; intros w; [apply g_refl|]. simpl.
  eapply g_trans; [apply g_del_up_conn'|apply IH].
Qed.

Lemma g_leave_group : forall c w, grows w (leave_group c w).
Proof.
  intros. unfold leave_group. destruct (c_group (w_cl w c)); [|apply g_refl].
  eapply g_trans; [apply (g_leave_fold c)|apply g_upd_cl; reflexivity].
Qed.

Lemma g_error_close : forall c w, grows w (error_close c w).
Proof.
  intros. unfold error_close. eapply g_trans; [apply g_leave_group|apply g_upd_cl; reflexivity].
Qed.

Lemma g_finish : forall c w r, grows w (fst r) -> grows w (finish c r).
Proof.
  intros c w [w' e] H. unfold finish. simpl in *. destruct e; [|exact H].
  eapply g_trans; [exact H|apply g_error_close].
Qed.

Lemma g_close_down_conn : forall c id msg w, grows w (close_down_conn c id msg w).
Proof.
  intros. apply g_same. intro m. unfold close_down_conn. destruct msg; autorewrite with sub; reflexivity.
Qed.

Lemma g_negotiate : forall c d r w, grows w (negotiate c d r w).
Proof.
  intros. apply g_same. intro m. unfold negotiate. destruct (d_havelocal d); autorewrite with sub; reflexivity.
Qed.

Lemma g_fail_up : forall c id w, grows w (fail_up c id w).
Proof. intros. unfold fail_up. eapply g_trans; apply g_send. Qed.

Lemma g_offer_tail : forall c id replace u s w, grows w (offer_tail c id replace u s w).
Proof.
  intros c id replace u s w. unfold offer_tail. set (w2 := if Nat.eqb replace 0 then w else _).
  assert (H : grows w w2).
  { unfold w2. destruct (Nat.eqb replace 0); [apply g_refl|].
    eapply g_trans; [apply (g_upd_up u)|apply g_del_up_conn']. }
  destruct s; [destruct (uo_closed (w_up w2 u))|..]; (eapply g_trans; [exact H|]);
    try apply g_fail_up; apply g_send.
Qed.

Lemma g_new_up_conn : forall c id label g w, grows w (new_up_conn c id label g w).
Proof.
  intros. apply g_same. intro m. unfold new_up_conn, new_timer. simpl. destruct (Nat.eqb m c); reflexivity.
Qed.

Lemma g_got_offer : forall c id label replace s w, grows w (got_offer c id label replace s w).
Proof.
  intros c id label replace s w. unfold got_offer.
  destruct (get_down id (c_down (w_cl w c))); [apply g_fail_up|].
  destruct (lookup id (c_up (w_cl w c))); [apply g_offer_tail|].
  destruct s; destruct (c_group (w_cl w c)); try apply g_fail_up;
    (eapply g_trans; [apply g_new_up_conn|apply g_offer_tail]).
Qed.

Lemma g_push_down_conn : forall c id up ts r w, grows w (fst (push_down_conn c id up ts r w)).
Proof. intros. apply g_same. intro m. apply push_down_conn_queues. Qed.

Lemma g_reqconns_fold : forall g t id l w,
  w_up w = w_up w0 -> (forall idu, In idu l -> snd idu < w_nup w0) ->
  grows w (reqconns_fold g t id l w).
Proof.
  induction l as [|x r IH]; intros w Hw Hl; [apply g_refl|]. simpl.
  assert (Hl' : forall idu, In idu r -> snd idu < w_nup w0) by (intros; apply Hl; right; assumption).
  destruct (negb (Nat.eqb id 0) && negb (Nat.eqb id (fst x))); [apply IH; assumption|].
  eapply g_trans; [|apply IH; [autorewrite with sub; exact Hw|exact Hl']].
  apply g_enq. rewrite Hw. apply Psome. apply Hl. left. reflexivity.
Qed.

Lemma g_unpresent_fold : forall c l w, grows w (unpresent_fold c l w).
Proof.
  induction l as [|x r IH]; intros w; [apply g_refl|]. simpl.
  eapply g_trans; [|apply IH].
  pose proof (g_del_up_conn' c (fst x) true w) as H. unfold del_up_conn' in H.
  destruct (del_up_conn c (fst x) true w); [apply g_refl|].
  eapply g_trans; [exact H|apply g_fail_up].
Qed.

Lemma g_handle_msg : forall c msg w, grows w (fst (handle_msg c msg w)).
Proof.
  intros c msg w.
  destruct msg as [g user pres op0|g|req|id req|id label replace s|id|id|id ok|dest|dest give];
    cbv beta iota zeta delta [handle_msg].
  - destruct (c_group (w_cl w c)); cbn [fst]; [apply g_refl|apply g_upd_cl; reflexivity].
  - destruct (in_group g (w_cl w c)); cbn [fst]; [apply g_leave_group|apply g_refl].
  - destruct (c_group (w_cl w c)); cbn [fst]; [|apply g_refl].
    eapply g_trans; [|apply g_enq_all; apply Preq]; [apply g_upd_cl; reflexivity].
  - destruct (get_down id (c_down (w_cl w c))); [|apply g_refl].
    destruct (c_group (w_cl w c)); cbn [fst]; [|apply g_refl].
    eapply g_trans; [|apply g_enq; apply Preq]; [apply g_upd_cl; reflexivity].
  - destruct (Nat.eqb id 0); cbn [fst]; [apply g_refl|].
    destruct (c_present (w_cl w c)); cbn [fst]; [apply g_got_offer|].
    eapply g_trans; [|apply g_send]. eapply g_trans; [|apply g_send].
    destruct (Nat.eqb replace 0); [apply g_refl|apply g_del_up_conn'].
  - destruct (Nat.eqb id 0); cbn [fst]; [apply g_refl|apply g_del_up_conn'].
  - destruct (Nat.eqb id 0); cbn [fst]; [apply g_refl|apply g_close_down_conn].
  - destruct (Nat.eqb id 0); cbn [fst]; [apply g_refl|].
    destruct (get_down id (c_down (w_cl w c))) as [d|]; cbn [fst]; [|apply g_close_down_conn].
    destruct (ok && d_havelocal d); cbn [fst]; [|apply g_close_down_conn].
    destruct (d_neg d); cbn [fst]; [|apply g_upd_cl; reflexivity].
    eapply g_trans; [|apply g_negotiate]; [apply g_upd_cl; reflexivity].
  - destruct (c_group (w_cl w c)); cbn [fst]; [|apply g_send].
    destruct (c_op (w_cl w c) && member_of w _ dest); cbn [fst]; [apply g_enq; apply Pkick|apply g_send].
  - destruct (c_group (w_cl w c)); cbn [fst]; [|apply g_send].
    destruct (c_op (w_cl w c) && member_of w _ dest); cbn [fst]; [apply g_enq; apply Pperm|apply g_send].
Qed.

Lemma g_handle_action : forall c a w,
  w_up w = w_up w0 -> (forall idu, In idu (c_up (w_cl w c)) -> snd idu < w_nup w0) ->
  grows w (fst (handle_action c a w)).
Proof.
  intros c a w Hw Hl. destruct a as [g id up ts r|g t id|g give| |]; cbv beta iota zeta delta [handle_action].
  - destruct (in_group g (w_cl w c)); [apply g_push_down_conn|apply g_refl].
  - destruct (in_group g (w_cl w c)); cbn [fst]; [|apply g_refl].
    apply (g_reqconns_fold g t id); assumption.
  - destruct (in_group g (w_cl w c)); cbn [fst]; [|apply g_refl].
    eapply g_trans; [|apply g_enq; apply Pchg]; [apply g_upd_cl; reflexivity].
  - destruct (c_group (w_cl w c)); cbn [fst]; [|apply g_refl].
    destruct (c_present (w_cl w c)); cbn [fst]; [apply g_refl|].
    apply (g_unpresent_fold c).
  - apply g_refl.
Qed.

End Grow.

(* a push of a live stream that carries the stream's current `replace` *)
Definition cur_action (w : world) (a : action) : Prop :=
  match a with
  | APush _ _ (Some v) _ r => v < w_nup w /\ r = uo_replace (w_up w v)
  | _ => True
  end.

Theorem step_queue : forall w o m, Inv w ->
  exists q0 l, c_queue (w_cl (step w o) m) = q0 ++ l /\ Forall (cur_action w) l /\
               (q0 = c_queue (w_cl w m) \/ exists a, c_queue (w_cl w m) = a :: q0).
Proof.
  intros w o m I.
  assert (G : forall w', grows (cur_action w) w w' ->
            exists q0 l, c_queue (w_cl w' m) = q0 ++ l /\ Forall (cur_action w) l /\
               (q0 = c_queue (w_cl w m) \/ exists a, c_queue (w_cl w m) = a :: q0)).
  { intros w' H. destruct (H m) as [l [A B]]. exists (c_queue (w_cl w m)), l. auto. }
  assert (Ups : forall c idu, In idu (c_up (w_cl w c)) -> snd idu < w_nup w).
  { intros c [i u] Hin. simpl.
    assert (Hl : lookup i (c_up (w_cl w c)) = Some u) by (apply in_nodup_lookup; [apply (inv_ups_nodup _ I)|exact Hin]).
    destruct (inv_ups _ I c i u Hl) as [H _]. exact H. }
  destruct o as [c msg|c|c|i|u k]; simpl.
  - destruct (Nat.ltb c (w_n w) && negb (c_dead (w_cl w c))); [|apply G; apply g_refl].
    apply G. apply g_finish; simpl; auto. apply g_handle_msg; simpl; auto.
  - destruct (Nat.ltb c (w_n w) && negb (c_dead (w_cl w c))); [|apply G; apply g_refl].
    destruct (c_queue (w_cl w c)) as [|a q] eqn:Eq; [apply G; apply g_refl|].
    set (w0 := upd_cl c (set_queue q) w).
    assert (H : grows (cur_action w) w0 (finish c (handle_action c a w0))).
    { apply g_finish; simpl; auto. apply (g_handle_action (cur_action w)) with (w0 := w); simpl; auto.
      intros idu Hin. apply (Ups c). revert Hin. unfold w0, upd_cl. simpl. rewrite Nat.eqb_refl. simpl. auto. }
    destruct (H m) as [l [A B]].
    destruct (Nat.eq_dec m c) as [e|ne].
    + subst m. exists q, l. split; [|split; [exact B|right; exists a; exact Eq]].
      rewrite A. unfold w0. rewrite upd_cl_same. reflexivity.
    + exists (c_queue (w_cl w m)), l. split; [|split; [exact B|left; reflexivity]].
      rewrite A. unfold w0, upd_cl. simpl. destruct (Nat.eqb_spec m c); [contradiction|reflexivity].
  - destruct (Nat.ltb c (w_n w) && negb (c_dead (w_cl w c))); [|apply G; apply g_refl].
    apply G. apply g_error_close; simpl; auto.
  - destruct (nth_error (w_timers w) i) as [t|] eqn:Et; [|apply G; apply g_refl].
    apply G. eapply g_trans; [apply g_set_timers|]. unfold fire_timer.
    destruct (uo_pushed _); [apply g_refl|].
    eapply g_trans; [apply g_upd_up|apply g_enq_all]. simpl. split; [|reflexivity].
    destruct (inv_timers _ I t (nth_error_In _ _ Et)) as [H _]. exact H.
  - destruct (Nat.ltb u (w_nup w) && negb (uo_closed (w_up w u))); [|apply G; apply g_refl].
    apply G. destruct (c_group (w_cl w (uo_owner (w_up w u)))); [|apply g_upd_up].
    unfold new_timer. eapply g_trans; [apply g_upd_up|].
    eapply g_trans; [apply g_upd_up|apply g_set_timers].
Qed.

(* ------------------------------------------------------------------ *)
(* what a step does to an existing up object                           *)

Lemma step_obj : forall w o u, Inv w -> ok_op w o -> u < w_nup w ->
  w_nup w <= w_nup (step w o) /\ uo_id (w_up (step w o) u) = uo_id (w_up w u) /\
  (uo_closed (w_up w u) = true -> uo_closed (w_up (step w o) u) = true) /\
  (uo_replace (w_up (step w o) u) = uo_replace (w_up w u) \/ uo_replace (w_up (step w o) u) = 0).
Proof.
  intros w o u I Hok Hu.
  assert (Act : forall c, actor o = Some c ->
            w_nup w <= w_nup (step w o) /\ uo_id (w_up (step w o) u) = uo_id (w_up w u) /\
            (uo_closed (w_up w u) = true -> uo_closed (w_up (step w o) u) = true) /\
            (uo_replace (w_up (step w o) u) = uo_replace (w_up w u) \/ uo_replace (w_up (step w o) u) = 0)).
  { intros c Ha. destruct (step_evo w o c I Hok Ha) as [[N H] _].
    destruct (H u Hu ltac:(discriminate)) as [A1 [_ [_ [_ [A5 [_ [_ A8]]]]]]].
    split; [exact N|]. split; [exact A1|]. split; [|left; exact A5].
    intro Hc. destruct A8 as [A8|[A8 _]]; congruence. }
  destruct o as [c msg|c|c|i|x k]; try (apply (Act c); reflexivity); simpl.
  - destruct (nth_error (w_timers w) i) as [t|]; [|repeat split; auto].
    unfold fire_timer. autorewrite with sub.
    destruct (uo_pushed (w_up w (t_up t))); autorewrite with sub; [repeat split; auto|].
    destruct (Nat.eqb u (t_up t)); simpl; repeat split; auto.
  - destruct (Nat.ltb x (w_nup w) && negb (uo_closed (w_up w x))); [|repeat split; auto].
    destruct (c_group (w_cl w (uo_owner (w_up w x)))); unfold new_timer; autorewrite with sub;
      destruct (Nat.eqb u x); simpl; repeat split; auto.
Qed.

(* ------------------------------------------------------------------ *)
(* the queue-order invariant                                           *)

Definition rep_of (u : nat) (a : action) : option nat :=
  match a with
  | APush _ _ (Some v) _ r => if Nat.eqb v u then Some r else None
  | _ => None
  end.

(* the `replace` fields of the queued pushes of the object u, in queue order *)
Fixpoint reps (u : nat) (q : list action) : list nat :=
  match q with
  | [] => []
  | a :: t => match rep_of u a with Some r => r :: reps u t | None => reps u t end
  end.

(* r, .., r, 0, .., 0: whatever precedes a non-zero entry is equal to it *)
Fixpoint chain (l : list nat) : Prop :=
  match l with
  | [] => True
  | a :: t => (forall b, In b t -> b <> 0 -> a = b) /\ chain t
  end.

Lemma reps_app : forall u q l, reps u (q ++ l) = reps u q ++ reps u l.
Proof.
  induction q as [|a t IH]; intros l; simpl; [reflexivity|].
  destruct (rep_of u a); rewrite IH; reflexivity.
Qed.

Lemma reps_in : forall u q r, In r (reps u q) -> exists g id ts, In (APush g id (Some u) ts r) q.
Proof.
  induction q as [|a t IH]; intros r H; simpl in H; [destruct H|].
  destruct (rep_of u a) as [r0|] eqn:E.
  - destruct H as [H|H].
    + subst r0. destruct a as [g id [v|] ts r1| | | |]; simpl in E; try discriminate.
      destruct (Nat.eqb_spec v u); [|discriminate]. inversion E. subst. exists g, id, ts. left. reflexivity.
    + destruct (IH r H) as [g [id [ts X]]]. exists g, id, ts. right. exact X.
  - destruct (IH r H) as [g [id [ts X]]]. exists g, id, ts. right. exact X.
Qed.

Lemma reps_cons_incl : forall u a q r, In r (reps u q) -> In r (reps u (a :: q)).
Proof. intros u a q r H. simpl. destruct (rep_of u a); [right|]; exact H. Qed.

Lemma reps_none : forall u q, (forall a, In a q -> rep_of u a = None) -> reps u q = [].
Proof.
  induction q as [|a t IH]; intros H; simpl; [reflexivity|].
  rewrite (H a (or_introl eq_refl)). apply IH. intros b Hb. apply H. right. exact Hb.
Qed.

Lemma reps_cur : forall w u l, Forall (cur_action w) l -> Forall (eq (uo_replace (w_up w u))) (reps u l).
Proof.
  induction l as [|a t IH]; intros F; simpl; [constructor|].
  inversion F as [|? ? Ha Ht]. subst.
  destruct (rep_of u a) as [r|] eqn:E; [|apply IH; exact Ht].
  constructor; [|apply IH; exact Ht].
  destruct a as [g id [v|] ts r1| | | |]; simpl in E; try discriminate.
  destruct (Nat.eqb_spec v u); [|discriminate]. inversion E. subst. simpl in Ha. symmetry. tauto.
Qed.

Lemma chain_tail : forall a l, chain (a :: l) -> chain l.
Proof. intros a l [_ H]. exact H. Qed.

Lemma chain_ext : forall r r' l l2,
  chain (l ++ [r]) -> Forall (eq r) l2 -> (r' = r \/ r' = 0) -> chain (l ++ l2 ++ [r']).
Proof.
  intros r r' l l2 H F Hr'. induction l as [|a t IH]; simpl in *.
  - clear H. induction l2 as [|x t2 IH2]; simpl.
    + split; [intros b []|exact I].
    + inversion F as [|? ? Hx Ht]. subst. split; [|apply IH2; exact Ht].
      intros b Hb Hnz. apply in_app_iff in Hb. destruct Hb as [Hb|[Hb|[]]].
      * rewrite Forall_forall in Ht. apply Ht. exact Hb.
      * subst b. destruct Hr'; congruence.
  - destruct H as [H1 H2]. split; [|apply IH; exact H2].
    intros b Hb Hnz. apply H1; [|exact Hnz].
    apply in_app_iff in Hb. apply in_app_iff. destruct Hb as [Hb|Hb]; [left; exact Hb|right].
    apply in_app_iff in Hb. destruct Hb as [Hb|[Hb|[]]].
    + rewrite Forall_forall in F. rewrite <- (F b Hb). left. reflexivity.
    + subst b. left. destruct Hr'; congruence.
Qed.

Definition QInv (w : world) : Prop :=
  forall m u, u < w_nup w -> chain (reps u (c_queue (w_cl w m)) ++ [uo_replace (w_up w u)]).

Lemma QInv_init : forall n, QInv (init n).
Proof. intros n m u Hu. simpl in Hu. lia. Qed.

Theorem QInv_step : forall w o, Inv w -> ok_op w o -> QInv w -> QInv (step w o).
Proof.
  intros w o I Hok Q m u Hu'.
  destruct (step_queue w o m I) as [q0 [l [Eq [Fl Hq0]]]].
  rewrite Eq, reps_app.
  destruct (lt_dec u (w_nup w)) as [Hu|Hu].
  - destruct (step_obj w o u I Hok Hu) as [_ [_ [_ Hrep]]].
    rewrite <- app_assoc. apply chain_ext with (r := uo_replace (w_up w u)).
    + specialize (Q m u Hu). destruct Hq0 as [->|[a Ea]]; [exact Q|]. rewrite Ea in Q.
      simpl in Q. destruct (rep_of u a); [exact (chain_tail _ _ Q)|exact Q].
    + apply reps_cur. exact Fl.
    + exact Hrep.
  - assert (N : forall a, In a (q0 ++ l) -> rep_of u a = None).
    { intros a Ha. apply in_app_iff in Ha. destruct Ha as [Ha|Ha].
      - assert (Hin : In a (c_queue (w_cl w m))).
        { destruct Hq0 as [->|[a0 Ea]]; [exact Ha|rewrite Ea; right; exact Ha]. }
        pose proof (inv_queue _ I m a Hin) as Hok'.
        destruct a as [g id [v|] ts r| | | |]; simpl; auto. simpl in Hok'. destruct Hok' as [Hv _].
        destruct (Nat.eqb_spec v u); [lia|reflexivity].
      - rewrite Forall_forall in Fl. specialize (Fl a Ha).
        destruct a as [g id [v|] ts r| | | |]; simpl; auto. simpl in Fl. destruct Fl as [Hv _].
        destruct (Nat.eqb_spec v u); [lia|reflexivity]. }
    rewrite <- reps_app, (reps_none _ _ N). simpl. split; [intros b []|exact Logic.I].
Qed.

(* ------------------------------------------------------------------ *)
(* a client that holds the stream of u does not hold the stream that u *)
(* replaces, as long as a push of u that carries `replace` is pending  *)

Definition HInv (w : world) : Prop :=
  forall m u r, u < w_nup w -> r <> 0 ->
    In r (reps u (c_queue (w_cl w m)) ++ [uo_replace (w_up w u)]) ->
    held w m (uo_id (w_up w u)) -> ~ held w m r.

Lemma HInv_init : forall n, HInv (init n).
Proof. intros n m u r Hu. simpl in Hu. lia. Qed.

Lemma held_down : forall w m k, held w m k -> exists d, In d (c_down (w_cl w m)) /\ d_id d = k.
Proof. intros w m k H. unfold held, heldl in H. apply in_map_iff in H. destruct H as [d [E H]]. eauto. Qed.

Theorem HInv_step : forall w o, Inv w -> ok_op w o -> QInv w -> HInv w -> HInv (step w o).
Proof.
  intros w o I Hok Q H m u r Hu' Hr Hin' Hn' Hr'.
  pose proof (Inv_step w o I Hok) as I'.
  (* m is a live member after the step *)
  assert (Hg' : c_group (w_cl (step w o) m) <> None).
  { intro X. destruct (inv_nogroup _ I' m X) as [_ [D _]]. unfold held in Hr'. rewrite D in Hr'. destruct Hr'. }
  assert (Hd' : c_dead (w_cl (step w o) m) = false).
  { destruct (c_dead (w_cl (step w o) m)) eqn:X; [|reflexivity]. exfalso. apply Hg'. apply (inv_dead _ I'). exact X. }
  destruct (step_act w o m I Hg' Hd') as [B _].
  (* an id that ended is not gained *)
  assert (NoGain : forall k, ended w k -> held (step w o) m k -> held w m k).
  { intros k [v [Hv [Hvid Hvc]]] Hk. destruct (B k Hk) as [X|X]; [exact X|]. exfalso.
    destruct X as [g [id [x [ts [r0 [q [_ [Eq [_ [Ek [Ec _]]]]]]]]]]].
    assert (Hx : x < w_nup w).
    { pose proof (inv_queue _ I m _ ltac:(rewrite Eq; left; reflexivity)) as A. simpl in A. tauto. }
    assert (v = x) by (apply (inv_ids _ I); auto; congruence). subst v. congruence. }
  (* the object existed *)
  assert (Hu : u < w_nup w).
  { destruct (lt_dec u (w_nup w)) as [X|X]; [exact X|]. exfalso.
    assert (Old : exists v, v < w_nup w /\ uo_id (w_up w v) = uo_id (w_up (step w o) u)).
    { destruct (B _ Hn') as [Y|Y].
      - destruct (held_down _ _ _ Y) as [d [Hd Hid]]. destruct (inv_downs _ I m d Hd) as [D1 [D2 _]].
        exists (d_remote d). split; [exact D1|congruence].
      - destruct Y as [g [id [x [ts [r0 [q [_ [Eq [_ [Ek _]]]]]]]]]].
        exists x. split; [|congruence].
        pose proof (inv_queue _ I m _ ltac:(rewrite Eq; left; reflexivity)) as A. simpl in A. tauto. }
    destruct Old as [v [Hv Hvid]].
    destruct (step_obj w o v I Hok Hv) as [N [E _]].
    assert (v = u) by (apply (inv_ids _ I'); [lia|exact Hu'|congruence]). lia. }
  destruct (step_obj w o u I Hok Hu) as [_ [Eid [_ Hrep]]].
  rewrite Eid in Hn'.
  (* r was pending before the step *)
  assert (Hin : In r (reps u (c_queue (w_cl w m)) ++ [uo_replace (w_up w u)])).
  { destruct (step_queue w o m I) as [q0 [l [Eq [Fl Hq0]]]].
    rewrite Eq, reps_app in Hin'. apply in_app_iff.
    apply in_app_iff in Hin'. destruct Hin' as [X|[X|[]]].
    - apply in_app_iff in X. destruct X as [X|X].
      + left. destruct Hq0 as [->|[a Ea]]; [exact X|]. rewrite Ea. apply reps_cons_incl. exact X.
      + right. left. pose proof (reps_cur w u l Fl) as F. rewrite Forall_forall in F. apply F. exact X.
    - right. left. destruct Hrep as [Y|Y]; congruence. }
  (* so the stream r has ended *)
  assert (Hend : ended w r).
  { apply in_app_iff in Hin. destruct Hin as [X|[X|[]]].
    - destruct (reps_in _ _ _ X) as [g [id [ts Y]]].
      pose proof (inv_queue _ I m _ Y) as A. simpl in A. tauto.
    - subst r. apply (inv_replace _ I); auto. }
  assert (Hrw : held w m r) by (apply NoGain; assumption).
  destruct (B _ Hn') as [X|X].
  - exact (H m u r Hu Hr Hin X Hrw).
  - (* m has just been pushed the stream of u: by the queue order that push carried r *)
    destruct X as [g [id [x [ts [r0 [q [Eo [Eq [Eg [Ek [Ec [Hm Hlive]]]]]]]]]]]].
    assert (Hx : x < w_nup w).
    { pose proof (inv_queue _ I m _ ltac:(rewrite Eq; left; reflexivity)) as A. simpl in A. tauto. }
    assert (x = u) by (apply (inv_ids _ I); auto). subst x.
    assert (r0 = r).
    { pose proof (Q m u Hu) as C. rewrite Eq in C, Hin. simpl in C, Hin. rewrite Nat.eqb_refl in C, Hin.
      simpl in C, Hin. destruct Hin as [X|X]; [exact X|]. destruct C as [C _]. apply C; assumption. }
    subst r0. subst o.
    destruct (pump_own w m _ q I Eq Hm Hlive Hd') as [_ [_ [_ K]]].
    assert (E : get_down r (c_down (w_cl (step w (OpPump m)) m)) = None).
    { apply (K g r Hr); [|exact Eg]. exists id, (Some u), ts, r. split; [reflexivity|right; reflexivity]. }
    apply (heldl_get_down _ r) in Hr'. contradiction.
Qed.

(* ------------------------------------------------------------------ *)
(* teardown reaches everyone: the removed stream is announced          *)

Lemma told_sent : forall w o m k l,
  c_out (w_cl (step w o) m) = c_out (w_cl w m) ++ l -> told k l ->
  sent w o m (OClose k) \/ exists i lb s us, sent w o m (OOffer i lb k s us).
Proof.
  intros w o m k l E [H|[i [lb [s [us H]]]]].
  - left. exists l. auto.
  - right. exists i, lb, s, us. exists l. auto.
Qed.

Theorem step_removed_told : forall w o m id,
  Inv w -> HInv w ->
  held w m id -> ~ held (step w o) m id ->
  c_group (w_cl (step w o) m) <> None -> c_dead (w_cl (step w o) m) = false ->
  exists l, c_out (w_cl (step w o) m) = c_out (w_cl w m) ++ l /\ told id l.
Proof.
  intros w o m id I H Hh Hn Hg Hd.
  destruct (step_act w o m I Hg Hd) as [_ C].
  destruct (C id Hh Hn) as [X|X]; [exact X|]. exfalso.
  destruct X as [Hnz [g [id' [u [ts [q [d0 [_ [Eq [_ [Eg _]]]]]]]]]]].
  assert (Hu : u < w_nup w).
  { pose proof (inv_queue _ I m _ ltac:(rewrite Eq; left; reflexivity)) as A. simpl in A. tauto. }
  apply (H m u id Hu Hnz); [| |exact Hh].
  - rewrite Eq. simpl. rewrite Nat.eqb_refl. left. reflexivity.
  - apply heldl_get_down. rewrite Eg. discriminate.
Qed.

Lemma good_run : forall ops w,
  Inv w -> QInv w -> HInv w -> ok_run w ops ->
  Inv (run w ops) /\ QInv (run w ops) /\ HInv (run w ops).
Proof.
  induction ops as [|o r IH]; intros w I Q H Hok; [auto|].
  simpl in *. destruct Hok as [H1 H2]. apply IH; auto.
  - apply Inv_step; auto.
  - apply QInv_step; auto.
  - apply HInv_step; auto.
Qed.

Lemma good_reachable : forall w, reachable w -> Inv w /\ QInv w /\ HInv w.
Proof.
  intros w [n [ops [Hok ->]]]. apply good_run; auto; [apply Inv_init|apply QInv_init|apply HInv_init].
Qed.

Theorem teardown_sent : forall w o m id,
  reachable w -> ok_op w o ->
  get_down id (c_down (w_cl w m)) <> None ->
  get_down id (c_down (w_cl (step w o) m)) = None ->
  c_group (w_cl (step w o) m) <> None -> c_dead (w_cl (step w o) m) = false ->
  sent w o m (OClose id) \/ exists i l s u, sent w o m (OOffer i l id s u).
Proof.
  intros w o m id R _ Hh Hn Hg Hd. destruct (good_reachable w R) as [I [_ H]].
  destruct (step_removed_told w o m id I H) as [l [E T]]; auto.
  - apply heldl_get_down. exact Hh.
  - intro X. apply heldl_get_down in X. contradiction.
  - eapply told_sent; eauto.
Qed.

(* ------------------------------------------------------------------ *)
(* ... along a whole history                                           *)

Lemma dead_stays : forall w o m, c_dead (w_cl w m) = true -> c_dead (w_cl (step w o) m) = true.
Proof.
  intros w o m Hd.
  assert (Hdec : actor o = Some m \/ actor o <> Some m).
  { destruct (actor o) as [c|]; [|right; discriminate].
    destruct (Nat.eq_dec c m); [left; congruence|right; congruence]. }
  destruct Hdec as [Ha|Ha].
  - destruct o as [c msg|c|c|i|u k]; simpl in Ha; inversion Ha; subst c; simpl;
      rewrite Hd, andb_false_r; exact Hd.
  - destruct (step_passive w o m Ha) as [Hc _].
    destruct (core_fields _ _ Hc) as [_ [_ [_ [_ [_ [_ [_ [_ D]]]]]]]]. congruence.
Qed.

Lemma alive_back : forall ops w m, c_dead (w_cl (run w ops) m) = false -> c_dead (w_cl w m) = false.
Proof.
  induction ops as [|o r IH]; intros w m H; [exact H|]. simpl in H.
  specialize (IH _ _ H). destruct (c_dead (w_cl w m)) eqn:E; [|reflexivity].
  rewrite (dead_stays w o m E) in IH. discriminate.
Qed.

(* a live client leaves its group only by its own `leave` *)
Lemma member_step : forall w o m, Inv w ->
  c_group (w_cl w m) <> None -> c_dead (w_cl (step w o) m) = false ->
  (forall g, o <> OpMsg m (MLeave g)) ->
  c_group (w_cl (step w o) m) = c_group (w_cl w m).
Proof.
  intros w o m I Hg Hd Hnl.
  assert (Hdec : actor o = Some m \/ actor o <> Some m).
  { destruct (actor o) as [c|]; [|right; discriminate].
    destruct (Nat.eq_dec c m); [left; congruence|right; congruence]. }
  destruct Hdec as [Ha|Ha].
  2:{ destruct (step_passive w o m Ha) as [Hc _]. destruct (core_fields _ _ Hc) as [G _]. exact G. }
  destruct o as [c msg|c|c|i|u k]; simpl in Ha; inversion Ha; subst c; clear Ha.
  - revert Hd. simpl.
    destruct (Nat.ltb m (w_n w) && negb (c_dead (w_cl w m))); [|reflexivity].
    destruct (handle_msg m msg w) as [w' e] eqn:E. unfold finish. cbn [fst snd].
    destruct e; [intros Hd; rewrite error_close_dead in Hd; discriminate|]. intros _.
    assert (E' : w' = fst (handle_msg m msg w)) by (rewrite E; reflexivity). clear E. subst w'.
    assert (K : forall w1, keeps m w w1 -> c_group (w_cl w1 m) = c_group (w_cl w m)).
    { intros w1 [_ [_ [X _]]]. exact X. }
    destruct msg as [g user pres op0|g|req|id req|id label replace s|id|id|id ok|dest|dest give];
      cbv beta iota zeta delta [handle_msg].
    + destruct (c_group (w_cl w m)) eqn:Eg0; cbn [fst]; [exact Eg0|exfalso; apply Hg; reflexivity].
    + exfalso. apply (Hnl g). reflexivity.
    + destruct (c_group (w_cl w m)) as [g|] eqn:Eg0; cbn [fst]; [|exact Eg0].
      autorewrite with sub. rewrite upd_cl_same. exact Eg0.
    + destruct (get_down id (c_down (w_cl w m))) as [d|]; [|reflexivity].
      destruct (c_group (w_cl w m)) as [g|] eqn:Eg0; cbn [fst]; [|exact Eg0].
      autorewrite with sub. exact Eg0.
    + destruct (Nat.eqb id 0); cbn [fst]; [reflexivity|].
      destruct (c_present (w_cl w m)); cbn [fst]; [apply K; apply keeps_got_offer|].
      apply K. eapply keeps_trans; [|apply keeps_send]. eapply keeps_trans; [|apply keeps_send].
      destruct (Nat.eqb replace 0); [apply keeps_refl|apply keeps_del_up_conn'].
    + destruct (Nat.eqb id 0); cbn [fst]; apply K; [apply keeps_refl|apply keeps_del_up_conn'].
    + destruct (Nat.eqb id 0); cbn [fst]; [reflexivity|].
      destruct (close_down_conn_own m id false w) as [_ [X _]]. exact X.
    + destruct (Nat.eqb id 0); cbn [fst]; [reflexivity|].
      destruct (get_down id (c_down (w_cl w m))) as [d|]; cbn [fst];
        [|destruct (close_down_conn_own m id false w) as [_ [X _]]; exact X].
      destruct (ok && d_havelocal d); cbn [fst];
        [|destruct (close_down_conn_own m id true w) as [_ [X _]]; exact X].
      destruct (d_neg d); cbn [fst]; [|autorewrite with sub; reflexivity].
      destruct (negotiate_own m (down_set_sig false true d) 0 (set_down_entry m (down_set_sig false true d) w))
        as [_ [X _]]. rewrite X. autorewrite with sub. reflexivity.
    + destruct (c_group (w_cl w m)) eqn:Eg0; cbn [fst]; [|autorewrite with sub; exact Eg0].
      destruct (c_op (w_cl w m) && member_of w _ dest); cbn [fst]; autorewrite with sub; exact Eg0.
    + destruct (c_group (w_cl w m)) eqn:Eg0; cbn [fst]; [|autorewrite with sub; exact Eg0].
      destruct (c_op (w_cl w m) && member_of w _ dest); cbn [fst]; autorewrite with sub; exact Eg0.
  - destruct (Nat.ltb m (w_n w) && negb (c_dead (w_cl w m))) eqn:Eguard.
    + apply andb_prop in Eguard. destruct Eguard as [Eg1 Eg2]. apply Nat.ltb_lt in Eg1. apply negb_true_iff in Eg2.
      destruct (c_queue (w_cl w m)) as [|a q] eqn:Eq.
      * simpl. rewrite Eq. destruct (_ && _); reflexivity.
      * destruct (pump_own w m a q I Eq Eg1 Eg2 Hd) as [_ [X _]]. exact X.
    + simpl. rewrite Eguard. reflexivity.
  - revert Hd. simpl.
    destruct (Nat.ltb m (w_n w) && negb (c_dead (w_cl w m))); [|reflexivity].
    intro Hd. rewrite error_close_dead in Hd. discriminate.
Qed.

Definition no_leave (m : nat) (o : op) : Prop := forall g, o <> OpMsg m (MLeave g).

Theorem removed_sent_run : forall m id ops w,
  Inv w -> QInv w -> HInv w -> ok_run w ops ->
  held w m id -> ~ held (run w ops) m id ->
  c_dead (w_cl (run w ops) m) = false ->
  Forall (no_leave m) ops ->
  exists p o s, ops = p ++ o :: s /\
    (sent (run w p) o m (OClose id) \/ exists i l s' u, sent (run w p) o m (OOffer i l id s' u)).
Proof.
  intros m id. induction ops as [|o r IH]; intros w I Q H Hok Hh Hn Hd Hnl; [contradiction|].
  simpl in *. destruct Hok as [Hok Hrest]. inversion Hnl as [|? ? Hnl1 Hnl2]. subst.
  assert (Hg : c_group (w_cl w m) <> None).
  { intro X. destruct (inv_nogroup _ I m X) as [_ [D _]]. unfold held in Hh. rewrite D in Hh. destruct Hh. }
  assert (Hd1 : c_dead (w_cl (step w o) m) = false) by (eapply alive_back; exact Hd).
  assert (Hg1 : c_group (w_cl (step w o) m) <> None).
  { rewrite (member_step w o m I Hg Hd1 Hnl1). exact Hg. }
  destruct (in_dec Nat.eq_dec id (map d_id (c_down (w_cl (step w o) m)))) as [Y|N].
  - destruct (IH (step w o)) as [p [o' [s [E S]]]]; auto.
    + apply Inv_step; auto.
    + apply QInv_step; auto.
    + apply HInv_step; auto.
    + exists (o :: p), o', s. split; [rewrite E; reflexivity|exact S].
  - exists [], o, r. split; [reflexivity|]. simpl.
    destruct (step_removed_told w o m id I H Hh N Hg1 Hd1) as [l [E T]].
    eapply told_sent; eauto.
Qed.

(* For every history that ends in a quiescent world: a client that held a
   down stream with the id of a stream that has ended by the end of the
   history, is alive at the end and has not sent `leave` since, was sent a
   `close` for that id or an offer with `replace` = that id at some step in
   between (and no longer holds it). *)
Theorem teardown_eventually : forall n ops1 ops2 m id,
  ok_run (init n) (ops1 ++ ops2) ->
  let w1 := run (init n) ops1 in
  let w := run (init n) (ops1 ++ ops2) in
  quiescentb w = true ->
  get_down id (c_down (w_cl w1 m)) <> None ->
  ended w id ->
  c_dead (w_cl w m) = false ->
  Forall (no_leave m) ops2 ->
  get_down id (c_down (w_cl w m)) = None /\
  exists p o s, ops2 = p ++ o :: s /\
    (sent (run w1 p) o m (OClose id) \/ exists i l s' u, sent (run w1 p) o m (OOffer i l id s' u)).
Proof.
  intros n ops1 ops2 m id Hok w1 w Hq Hh [v [Hv [Hvid Hvc]]] Hd Hnl.
  destruct (reach_init n _ Hok) as [I [Rg K]]. fold w in I, Rg, K.
  apply ok_run_app in Hok. destruct Hok as [Hok1 Hok2]. fold w1 in Hok2.
  destruct (good_run ops1 (init n) (Inv_init n) (QInv_init n) (HInv_init n) Hok1) as [I1 [Q1 H1]].
  fold w1 in I1, Q1, H1.
  assert (Ew : w = run w1 ops2) by (unfold w, w1; apply run_app).
  assert (Hn : ~ held w m id).
  { intro X. destruct (held_down _ _ _ X) as [d [Hin Hid]].
    pose proof (teardown_quiescent w I Rg K Hq m d Hd Hin) as Hopen.
    destruct (inv_downs _ I m d Hin) as [D1 [D2 _]].
    assert (v = d_remote d) by (apply (inv_ids _ I); auto; congruence). subst v. congruence. }
  split.
  - destruct (get_down id (c_down (w_cl w m))) eqn:E; [|reflexivity].
    exfalso. apply Hn. apply heldl_get_down. rewrite E. discriminate.
  - apply (removed_sent_run m id ops2 w1); auto.
    + apply heldl_get_down. exact Hh.
    + rewrite <- Ew. exact Hn.
    + rewrite <- Ew. exact Hd.
Qed.

(* ------------------------------------------------------------------ *)
(* witnesses                                                           *)

(* after good_history the publisher offers stream 2 with replace = 1; OnTrack;
   the delayed push fires.  Client 1 (holds stream 1) serves the push next. *)
Definition replace_prefix : list op :=
  good_history ++ [OpMsg 0 (MOffer 2 1 1 SGood); OpTrack 1 KAudio; OpTimer 0; OpTimer 0].

Example replace_prefix_ok : ok_run (init 3) (replace_prefix ++ [OpPump 1]).
Proof. apply ok_runb_sound. vm_compute. reflexivity. Qed.

(* the stream 1 is removed by the step and the offer of stream 2 carries replace = 1 *)
Example replace_removed_and_told :
  let w := run (init 3) replace_prefix in
  map d_id (c_down (w_cl w 1)) = [1] /\
  map d_id (c_down (w_cl (step w (OpPump 1)) 1)) = [2] /\
  c_group (w_cl (step w (OpPump 1)) 1) = Some 1 /\ c_dead (w_cl (step w (OpPump 1)) 1) = false /\
  c_out (w_cl (step w (OpPump 1)) 1) = c_out (w_cl w 1) ++ [OOffer 2 1 1 0 1].
Proof. vm_compute. repeat split. Qed.

(* the publisher closes stream 1: the step of client 1 that removes it sends the close *)
Definition close_prefix : list op := good_history ++ [OpMsg 0 (MClose 1)].

Example close_removed_and_told :
  let w := run (init 3) close_prefix in
  map d_id (c_down (w_cl w 1)) = [1] /\
  c_down (w_cl (step w (OpPump 1)) 1) = [] /\
  c_group (w_cl (step w (OpPump 1)) 1) = Some 1 /\ c_dead (w_cl (step w (OpPump 1)) 1) = false /\
  c_out (w_cl (step w (OpPump 1)) 1) = c_out (w_cl w 1) ++ [OClose 1].
Proof. vm_compute. repeat split. Qed.

(* the corner is reachable as a configuration: client 1 asks again inside the
   push delay, is pushed stream 2 (replace = 1) by the publisher's
   requestConns, answers nothing; the delayed push (more tracks, replace = 1)
   arrives while the offer of stream 2 is unanswered: negotiate sends nothing.
   Nothing is lost, because the first push already removed stream 1 (HInv). *)
Definition corner_prefix : list op :=
  good_history ++ [OpMsg 0 (MOffer 2 1 1 SGood); OpTrack 1 KAudio;
                   OpMsg 1 (MRequest [(0, [RAudio; RVideo])]); OpPump 0;
                   OpTrack 1 KVideo; OpTimer 0; OpTimer 0; OpTimer 0; OpPump 1].

Example corner_reached :
  ok_run (init 3) (corner_prefix ++ [OpPump 1]) /\
  let w := run (init 3) corner_prefix in
  c_queue (w_cl w 1) = [APush 1 2 (Some 1) [KAudio; KVideo] 1] /\
  map (fun d => (d_id d, d_havelocal d)) (c_down (w_cl w 1)) = [(2, true)] /\
  c_out (w_cl w 1) = [OOffer 1 1 0 0 1; OOffer 2 1 1 0 1] /\
  c_out (w_cl (step w (OpPump 1)) 1) = c_out (w_cl w 1) /\
  map (fun d => (d_id d, d_neg d)) (c_down (w_cl (step w (OpPump 1)) 1)) = [(2, true)].
Proof. split; [apply ok_runb_sound; vm_compute; reflexivity|]. vm_compute. repeat split. Qed.

(* Proofs about diskTrack.Write / fetch (Model/Disk.v): what is handed to the
   sample builder, for every delivery history. *)
From Coq Require Import ZArith List Bool Lia.
From Galene Require Import Lib.Word Model.Disk.
Import ListNotations.
Open Scope Z_scope.
Ltac Zify.zify_post_hook ::= Z.div_mod_to_equations.

(* ------------------------------------------------------------------ *)
(* projections of event lists                                          *)

Lemma pushes_app a b : pushes (a ++ b) = pushes a ++ pushes b.
Proof. unfold pushes. apply flat_map_app. Qed.
Lemma fetches_app a b : fetches (a ++ b) = fetches a ++ fetches b.
Proof. unfold fetches. apply flat_map_app. Qed.
Lemma kfreqs_app a b : kfreqs (a ++ b) = kfreqs a ++ kfreqs b.
Proof. unfold kfreqs. apply flat_map_app. Qed.

Lemma dlen_to_nat {A} (l : list A) : Z.to_nat (dlen l) = length l.
Proof. unfold dlen. apply Nat2Z.id. Qed.

(* ------------------------------------------------------------------ *)
(* fetch                                                               *)

(* what fetch unmarshals is exactly what the cache holds: buf[:n] of the
   1504-byte scratch buffer after copy() is the cached packet, no padding,
   no truncation *)
Lemma fetch_cases parse cache s :
  (cache s = None /\ fetch parse cache s = [EFetch s 0]) \/
  (exists b, cache s = Some b /\ dlen b = 0 /\ fetch parse cache s = [EFetch s 0]) \/
  (exists b, cache s = Some b /\ 0 < dlen b /\ parse b = None /\
             fetch parse cache s = [EFetch s (dlen b)]) \/
  (exists b p, cache s = Some b /\ 0 < dlen b /\ parse b = Some p /\
             fetch parse cache s = [EFetch s (dlen b); EPush b p]).
Proof.
  unfold fetch, get_packet.
  destruct (cache s) as [b|] eqn:E.
  - assert (Hf : firstn (Z.to_nat (dlen b))
                   (b ++ skipn (length b) (repeat 0 (Z.to_nat BufSize))) = b).
    { rewrite dlen_to_nat. rewrite firstn_app, Nat.sub_diag, firstn_all. cbn [firstn].
      apply app_nil_r. }
    destruct (dlen b =? 0) eqn:E0.
    + right; left. exists b. split; [reflexivity|]. split; [lia|reflexivity].
    + assert (0 < dlen b) by (unfold dlen in *; lia).
      rewrite Hf. destruct (parse b) as [p|] eqn:Ep.
      * right; right; right. exists b, p. auto.
      * right; right; left. exists b. auto.
  - left. split; reflexivity.
Qed.

Lemma fetch_pushes parse cache s b p :
  In (b, p) (pushes (fetch parse cache s)) ->
  cache s = Some b /\ parse b = Some p /\ 0 < dlen b /\
  fetches (fetch parse cache s) = [(s, dlen b)].
Proof.
  destruct (fetch_cases parse cache s) as [[_ ->]|[(b0 & _ & _ & ->)|[(b0 & _ & _ & _ & ->)|(b0 & p0 & Hc & Hl & Hp & ->)]]];
    cbn; try tauto.
  intros [H|[]]. inversion H; subst. auto.
Qed.

Lemma fetch_kfreqs parse cache s : kfreqs (fetch parse cache s) = [].
Proof.
  destruct (fetch_cases parse cache s) as [[_ ->]|[(b0 & _ & _ & ->)|[(b0 & _ & _ & _ & ->)|(b0 & p0 & _ & _ & _ & ->)]]];
    reflexivity.
Qed.

Lemma fetch_fetches parse cache s : exists n, fetches (fetch parse cache s) = [(s, n)].
Proof.
  destruct (fetch_cases parse cache s) as [[_ ->]|[(b0 & _ & _ & ->)|[(b0 & _ & _ & _ & ->)|(b0 & p0 & _ & _ & _ & ->)]]];
    cbn; eauto.
Qed.

Lemma flat_fetch_pushes parse cache fs b p :
  In (b, p) (pushes (flat_map (fetch parse cache) fs)) ->
  exists s, In s fs /\ cache s = Some b /\ parse b = Some p /\ 0 < dlen b.
Proof.
  induction fs as [|s fs IH]; cbn [flat_map]; [intros []|].
  rewrite pushes_app, in_app_iff. intros [H|H].
  - apply fetch_pushes in H. exists s. cbn. tauto.
  - destruct (IH H) as (s' & ? & ?). exists s'. cbn. tauto.
Qed.

Lemma flat_fetch_kfreqs parse cache fs : kfreqs (flat_map (fetch parse cache) fs) = [].
Proof.
  induction fs; cbn [flat_map]; [reflexivity|].
  rewrite kfreqs_app, fetch_kfreqs, IHfs. reflexivity.
Qed.

Lemma flat_fetch_fetches parse cache fs :
  map fst (fetches (flat_map (fetch parse cache) fs)) = fs.
Proof.
  induction fs as [|s fs IH]; cbn [flat_map]; [reflexivity|].
  rewrite fetches_app, map_app, IH.
  destruct (fetch_fetches parse cache s) as (n & ->). reflexivity.
Qed.

(* ------------------------------------------------------------------ *)
(* one Write                                                           *)

Lemma write_unparsable parse cache last buf :
  parse buf = None -> write parse cache last buf = (last, []).
Proof. unfold write. intros ->. reflexivity. Qed.

Lemma write_parsed parse cache last buf p :
  parse buf = Some p ->
  write parse cache last buf =
  (fst (fst (gap_step last (p_seq p))),
   flat_map (fetch parse cache) (snd (fst (gap_step last (p_seq p))))
   ++ (if snd (gap_step last (p_seq p)) then [EKfReq] else []) ++ [EPush buf p]).
Proof.
  unfold write. intros ->. destruct (gap_step last (p_seq p)) as [[l fs] k]. reflexivity.
Qed.

(* every packet handed to the builder is byte-identical to a published
   packet: the delivered buffer itself, or exactly what the cache holds for a
   number that was asked for *)
Lemma write_pushed parse cache last buf last' evs b p :
  write parse cache last buf = (last', evs) ->
  In (b, p) (pushes evs) ->
  parse b = Some p /\
  (b = buf \/ exists s, In s (map fst (fetches evs)) /\ cache s = Some b /\ 0 < dlen b).
Proof.
  intros Hw Hin. destruct (parse buf) as [q|] eqn:Ep.
  - rewrite (write_parsed _ _ _ _ _ Ep) in Hw. inversion Hw; subst; clear Hw.
    rewrite !pushes_app, !in_app_iff in Hin. destruct Hin as [H|[H|H]].
    + apply flat_fetch_pushes in H. destruct H as (s & Hs & Hc & Hp & Hl).
      split; [exact Hp|]. right. exists s. split; [|tauto].
      rewrite !fetches_app, !map_app, flat_fetch_fetches. apply in_or_app. left. exact Hs.
    + destruct (snd (gap_step last (p_seq q))); cbn in H; tauto.
    + cbn in H. destruct H as [H|[]]. inversion H; subst. auto.
  - rewrite (write_unparsable _ _ _ _ Ep) in Hw. inversion Hw; subst. destruct Hin.
Qed.

(* the delivered packet itself is pushed exactly once, after everything
   that was fetched *)
Lemma write_delivered_last parse cache last buf p :
  parse buf = Some p ->
  exists pre, pushes (snd (write parse cache last buf)) = pre ++ [(buf, p)] /\
              forall b q, In (b, q) pre -> exists s, cache s = Some b.
Proof.
  intros Ep. rewrite (write_parsed _ _ _ _ _ Ep). cbn [snd].
  exists (pushes (flat_map (fetch parse cache) (snd (fst (gap_step last (p_seq p)))))).
  rewrite !pushes_app. split.
  - f_equal. destruct (snd (gap_step last (p_seq p))); reflexivity.
  - intros b q H. apply flat_fetch_pushes in H. destruct H as (s & _ & Hc & _). eauto.
Qed.

(* histories *)
Lemma run_writes_cons parse last cache buf h :
  run_writes parse last ((cache, buf) :: h) =
  (fst (run_writes parse (fst (write parse cache last buf)) h),
   snd (write parse cache last buf) :: snd (run_writes parse (fst (write parse cache last buf)) h)).
Proof.
  cbn [run_writes]. destruct (write parse cache last buf) as [l1 evs]. cbn [fst snd].
  destruct (run_writes parse l1 h). reflexivity.
Qed.

Lemma run_writes_length parse h : forall last,
  length (snd (run_writes parse last h)) = length h.
Proof.
  induction h as [|[c b] h IH]; intros last; [reflexivity|].
  rewrite run_writes_cons. cbn [snd length]. f_equal. apply IH.
Qed.

Lemma history_pushed parse h : forall last k cache buf evs b p,
  nth_error h k = Some (cache, buf) ->
  nth_error (snd (run_writes parse last h)) k = Some evs ->
  In (b, p) (pushes evs) ->
  parse b = Some p /\
  (b = buf \/ exists s, In s (map fst (fetches evs)) /\ cache s = Some b /\ 0 < dlen b).
Proof.
  induction h as [|[c0 b0] h IH]; intros last k cache buf evs b p Hk He Hin.
  - destruct k; discriminate.
  - rewrite run_writes_cons in He. cbn [snd] in He. destruct k as [|k].
    + cbn in Hk, He. inversion Hk; inversion He; subst.
      eapply write_pushed; [|exact Hin]. apply surjective_pairing.
    + cbn in Hk, He. eapply IH; eauto.
Qed.

(* ------------------------------------------------------------------ *)
(* the gap state machine on unwrapped numbers                          *)

Fixpoint zseq (start : Z) (n : nat) : list Z :=
  match n with O => [] | S n' => start :: zseq (start + 1) n' end.
(* [a+1; ...; b] *)
Definition zrange (a b : Z) : list Z := zseq (a + 1) (Z.to_nat (b - a)).

Lemma zseq_length s n : length (zseq s n) = n.
Proof. revert s; induction n; intros; cbn; auto. Qed.
Lemma zseq_in s n x : In x (zseq s n) <-> s <= x < s + Z.of_nat n.
Proof.
  revert s; induction n as [|n IH]; intros s; cbn [zseq In].
  - lia.
  - rewrite IH. lia.
Qed.
Lemma zrange_in a b x : In x (zrange a b) <-> a < x <= b.
Proof. unfold zrange. rewrite zseq_in. lia. Qed.
Lemma zseq_app s n m : zseq s (n + m) = zseq s n ++ zseq (s + Z.of_nat n) m.
Proof.
  revert s; induction n as [|n IH]; intros s.
  - cbn. f_equal. lia.
  - cbn [Nat.add zseq app]. rewrite IH.
    replace (s + Z.of_nat (S n)) with (s + 1 + Z.of_nat n) by lia. reflexivity.
Qed.
Lemma zrange_app a b c : a <= b <= c -> zrange a c = zrange a b ++ zrange b c.
Proof.
  intros H. unfold zrange.
  replace (Z.to_nat (c - a)) with (Z.to_nat (b - a) + Z.to_nat (c - b))%nat by lia.
  rewrite zseq_app. do 2 f_equal. lia.
Qed.
Lemma zrange_last a b : a < b -> zrange a b = zrange a (b - 1) ++ [b].
Proof.
  intros H. rewrite (zrange_app a (b - 1) b) by lia. f_equal.
  unfold zrange. replace (Z.to_nat (b - (b - 1))) with 1%nat by lia. cbn. f_equal. lia.
Qed.
Lemma zrange_nil a b : b <= a -> zrange a b = [].
Proof. intros H. unfold zrange. replace (Z.to_nat (b - a)) with 0%nat by lia. reflexivity. Qed.

Lemma zrange_from_shift s n k : map (fun i => k + i) (zrange_from s n) = zseq (k + s) n.
Proof.
  revert s; induction n as [|n IH]; intros s; cbn; [reflexivity|].
  f_equal. rewrite IH. f_equal. lia.
Qed.

Lemma missing_unwrapped M cnt :
  missing (w16 M) cnt = map w16 (zrange M (M + cnt - 1)).
Proof.
  unfold missing, zrange.
  replace (M + cnt - 1 - M) with (cnt - 1) by lia.
  rewrite <- (zrange_from_shift 1 _ M). rewrite map_map.
  apply map_ext. intros i. unfold w16. lia.
Qed.

(* forward jump below 256: every missing number is asked for, in order *)
Lemma gap_step_forward M N :
  0 <= N - M < 256 ->
  gap_step (Some (w16 M)) (w16 N) = (Some (w16 N), map w16 (zrange M (N - 1)), false).
Proof.
  intros H. unfold gap_step.
  assert (E : w16 (w16 N - w16 M) = N - M) by (unfold w16; lia).
  rewrite E.
  replace (N - M <? 32768) with true by lia.
  replace (N - M <? 256) with true by lia.
  rewrite missing_unwrapped.
  replace (M + (N - M) - 1) with (N - 1) by lia. reflexivity.
Qed.

(* forward jump of 256 or more: nothing is fetched, a keyframe is requested *)
Lemma gap_step_far M N :
  256 <= N - M < 32768 ->
  gap_step (Some (w16 M)) (w16 N) = (Some (w16 N), [], true).
Proof.
  intros H. unfold gap_step.
  assert (E : w16 (w16 N - w16 M) = N - M) by (unfold w16; lia).
  rewrite E.
  replace (N - M <? 32768) with true by lia.
  replace (N - M <? 256) with false by lia. reflexivity.
Qed.

(* backward jump below 512 (a duplicate is a forward jump of 0): the state is kept *)
Lemma gap_step_backward M N :
  0 < M - N < 512 ->
  gap_step (Some (w16 M)) (w16 N) = (Some (w16 M), [], false).
Proof.
  intros H. unfold gap_step.
  assert (E : w16 (w16 N - w16 M) = 65536 - (M - N)) by (unfold w16; lia).
  assert (E2 : w16 (w16 M - w16 N) = M - N) by (unfold w16; lia).
  rewrite E, E2.
  replace (65536 - (M - N) <? 32768) with false by lia.
  replace (512 <=? M - N) with false by lia. reflexivity.
Qed.

(* backward jump of 512 or more: the state is forgotten, a keyframe requested *)
Lemma gap_step_reset M N :
  512 <= M - N <= 32768 ->
  gap_step (Some (w16 M)) (w16 N) = (None, [], true).
Proof.
  intros H. unfold gap_step.
  assert (E : w16 (w16 N - w16 M) = 65536 - (M - N)) by (unfold w16; lia).
  assert (E2 : w16 (w16 M - w16 N) = M - N) by (unfold w16; lia).
  rewrite E, E2.
  replace (65536 - (M - N) <? 32768) with false by lia.
  replace (512 <=? M - N) with true by lia. reflexivity.
Qed.

(* ------------------------------------------------------------------ *)
(* recovery                                                            *)

(* the cache holds the published packet number K (under its 16-bit number) *)
Definition holds (parse : list Z -> option pkt) (cache : Z -> option (list Z)) (K : Z) : Prop :=
  exists b q, cache (w16 K) = Some b /\ 0 < dlen b /\ parse b = Some q /\ p_seq q = w16 K.

Definition pushed_seqs (evs : list event) : list Z :=
  map (fun bp => p_seq (snd bp)) (pushes evs).

Lemma pushed_seqs_app a b : pushed_seqs (a ++ b) = pushed_seqs a ++ pushed_seqs b.
Proof. unfold pushed_seqs. rewrite pushes_app. apply map_app. Qed.

Lemma fetch_held parse cache K :
  holds parse cache K -> pushed_seqs (fetch parse cache (w16 K)) = [w16 K].
Proof.
  intros (b & q & Hc & Hl & Hp & Hs).
  destruct (fetch_cases parse cache (w16 K))
    as [[Hn _]|[(b0 & Hc0 & Hz & _)|[(b0 & Hc0 & _ & Hp0 & _)|(b0 & p0 & Hc0 & _ & Hp0 & ->)]]];
    rewrite Hc in *; try discriminate.
  - inversion Hc0; subst. lia.
  - inversion Hc0; subst. rewrite Hp in Hp0. discriminate.
  - inversion Hc0; subst. rewrite Hp in Hp0. inversion Hp0; subst.
    unfold pushed_seqs. cbn. rewrite Hs. reflexivity.
Qed.

Lemma flat_fetch_held parse cache : forall l,
  (forall K, In K l -> holds parse cache K) ->
  pushed_seqs (flat_map (fetch parse cache) (map w16 l)) = map w16 l.
Proof.
  induction l as [|K l IH]; intros H; [reflexivity|].
  cbn [map flat_map]. rewrite pushed_seqs_app, fetch_held by (apply H; left; reflexivity).
  rewrite IH by (intros; apply H; right; assumption). reflexivity.
Qed.

(* one Write ahead of the newest number, every missing number in the cache:
   the builder receives M+1, ..., N without a gap, in order, each once *)
Lemma write_recovers parse cache M N buf p :
  parse buf = Some p -> p_seq p = w16 N ->
  0 < N - M < 256 ->
  (forall K, M < K < N -> holds parse cache K) ->
  let '(last', evs) := write parse cache (Some (w16 M)) buf in
  last' = Some (w16 N) /\
  pushed_seqs evs = map w16 (zrange M N) /\
  kfreqs evs = [] /\
  map fst (fetches evs) = map w16 (zrange M (N - 1)).
Proof.
  intros Ep Hs Hr Hh.
  rewrite (write_parsed _ _ _ _ _ Ep), Hs, gap_step_forward by lia. cbn [fst snd].
  split; [reflexivity|]. split; [|split].
  - rewrite !pushed_seqs_app, flat_fetch_held by (intros K HK; apply zrange_in in HK; apply Hh; lia).
    rewrite (zrange_last M N) by lia. rewrite map_app. f_equal.
    unfold pushed_seqs. cbn. rewrite Hs. reflexivity.
  - rewrite !kfreqs_app, flat_fetch_kfreqs. reflexivity.
  - rewrite !fetches_app, !map_app, flat_fetch_fetches. cbn. rewrite !app_nil_r. reflexivity.
Qed.

(* a late packet or a duplicate (up to 511 behind, including the newest
   number itself): pushed as it is, nothing fetched, the state is kept *)
Lemma write_late parse cache M N buf p :
  parse buf = Some p -> p_seq p = w16 N ->
  0 <= M - N < 512 ->
  write parse cache (Some (w16 M)) buf = (Some (w16 M), [EPush buf p]).
Proof.
  intros Ep Hs Hr. rewrite (write_parsed _ _ _ _ _ Ep), Hs.
  destruct (Z.eq_dec M N) as [->|Hne].
  - rewrite gap_step_forward by lia. cbn [fst snd]. rewrite zrange_nil by lia. reflexivity.
  - rewrite gap_step_backward by lia. reflexivity.
Qed.

(* ghost-annotated histories: each delivery carries the unwrapped number of
   its packet.  A history is windowed and recoverable from the newest number
   M when every delivery is either ahead of the newest number by less than
   256 with every number in between in the cache at that moment, or at most
   511 behind it (late packets and duplicates). *)
Definition ghist := list (Z * (Z -> option (list Z)) * list Z).

Fixpoint Recoverable (parse : list Z -> option pkt) (M : Z) (h : ghist) : Prop :=
  match h with
  | [] => True
  | (N, cache, buf) :: h' =>
    (exists p, parse buf = Some p /\ p_seq p = w16 N) /\
    ((M < N < M + 256 /\ (forall K, M < K < N -> holds parse cache K)) \/ (M - 512 < N <= M)) /\
    Recoverable parse (Z.max M N) h'
  end.

(* what the builder is given, step by step *)
Fixpoint expected (M : Z) (h : ghist) : list (list Z) :=
  match h with
  | [] => []
  | (N, _, _) :: h' =>
    (if M <? N then zrange M N else [N]) :: expected (Z.max M N) h'
  end.
(* the numbers that are new at each step *)
Fixpoint news (M : Z) (h : ghist) : list Z :=
  match h with
  | [] => []
  | (N, _, _) :: h' => (if M <? N then zrange M N else []) ++ news (Z.max M N) h'
  end.
Fixpoint newest (M : Z) (h : ghist) : Z :=
  match h with [] => M | (N, _, _) :: h' => newest (Z.max M N) h' end.

Definition strip (h : ghist) : list ((Z -> option (list Z)) * list Z) :=
  map (fun x => (snd (fst x), snd x)) h.

Lemma history_recovers parse : forall h M,
  Recoverable parse M h ->
  fst (run_writes parse (Some (w16 M)) (strip h)) = Some (w16 (newest M h)) /\
  map pushed_seqs (snd (run_writes parse (Some (w16 M)) (strip h))) =
  map (map w16) (expected M h) /\
  Forall (fun evs => kfreqs evs = []) (snd (run_writes parse (Some (w16 M)) (strip h))).
Proof.
  induction h as [|[[N cache] buf] h IH]; intros M Hr.
  - cbn. auto.
  - cbn [Recoverable] in Hr. destruct Hr as ((p & Ep & Hs) & Hc & Hrest).
    change (strip ((N, cache, buf) :: h)) with ((cache, buf) :: strip h).
    rewrite run_writes_cons.
    cbn [expected newest map fst snd].
    destruct Hc as [[Ha Hh]|Hl].
    + pose proof (write_recovers parse cache M N buf p Ep Hs ltac:(lia) Hh) as W.
      destruct (write parse cache (Some (w16 M)) buf) as [l1 evs].
      destruct W as (-> & Hp & Hk & _). cbn [fst snd].
      replace (M <? N) with true by lia.
      replace (Z.max M N) with N in * by lia.
      destruct (IH N Hrest) as (I1 & I2 & I3).
      split; [exact I1|]. split; [rewrite Hp, I2; reflexivity|].
      constructor; assumption.
    + rewrite (write_late parse cache M N buf p Ep Hs) by lia. cbn [fst snd].
      replace (M <? N) with false by lia.
      replace (Z.max M N) with M in * by lia.
      destruct (IH M Hrest) as (I1 & I2 & I3).
      split; [exact I1|]. split; [|constructor; [reflexivity|assumption]].
      cbn [map]. rewrite I2. f_equal. unfold pushed_seqs. cbn. rewrite Hs. reflexivity.
Qed.

Lemma newest_ge h : forall M, M <= newest M h.
Proof.
  induction h as [|[[N c] b] h IH]; intros M; cbn [newest]; [lia|].
  specialize (IH (Z.max M N)). lia.
Qed.

(* the numbers that are new at some step are exactly M+1 .. newest, in
   order, each once: nothing is skipped and nothing is fetched twice *)
Lemma news_contiguous : forall h M, news M h = zrange M (newest M h).
Proof.
  induction h as [|[[N c] b] h IH]; intros M; cbn [news newest].
  - rewrite zrange_nil by lia. reflexivity.
  - rewrite IH. pose proof (newest_ge h (Z.max M N)).
    destruct (M <? N) eqn:E.
    + replace (Z.max M N) with N in * by lia.
      symmetry. apply zrange_app. lia.
    + replace (Z.max M N) with M in * by lia. reflexivity.
Qed.

Lemma news_in_expected : forall h M K,
  In K (news M h) -> In K (concat (expected M h)).
Proof.
  induction h as [|[[N c] b] h IH]; intros M K; cbn [news expected concat]; [auto|].
  rewrite !in_app_iff. intros [H|H].
  - left. destruct (M <? N); [exact H|destruct H].
  - right. apply IH. exact H.
Qed.

(* a duplicate IS pushed again: the recorder does not filter duplicates *)
Lemma duplicate_pushed_twice parse cache buf p :
  parse buf = Some p ->
  map pushed_seqs (snd (run_writes parse None [(cache, buf); (cache, buf)])) =
  [[p_seq p]; [p_seq p]].
Proof.
  intros Ep. rewrite !run_writes_cons. cbn [snd fst run_writes map].
  rewrite (write_parsed _ _ None _ _ Ep). cbn [gap_step fst snd flat_map app].
  assert (E : p_seq p = w16 (p_seq p) \/ True) by (right; exact I).
  unfold pushed_seqs at 1. cbn [pushes flat_map app map snd].
  rewrite (write_parsed _ _ _ _ _ Ep).
  unfold gap_step. rewrite Z.sub_diag. unfold w16 at 1. cbn [Z.modulo].
  change (0 mod 65536) with 0. cbn [Z.ltb Z.compare].
  change (0 <? 32768) with true. cbn iota.
  unfold w16. change (0 mod 65536) with 0. change (0 <? 256) with true. cbn iota.
  unfold missing. cbn. reflexivity.
Qed.

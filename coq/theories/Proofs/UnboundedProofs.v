(* Invariants of the action-queue protocol (Model/Unbounded.v), for every
   schedule: no lost wake-up, exactly-once delivery in lock order, and
   termination of the drain. *)
From Coq Require Import ZArith List Bool Lia.
From Galene Require Import Model.Unbounded.
Import ListNotations.
Open Scope Z_scope.

(* ---------------------------------------------------------------- helpers *)

Lemma lookup_remove_neq : forall p q l, p <> q -> lookup p (remove q l) = lookup p l.
Proof.
  intros p q l Hne. induction l as [|[r e] l IH]; cbn [lookup remove]; [reflexivity|].
  destruct (Z.eqb q r) eqn:Eqr.
  - apply Z.eqb_eq in Eqr. subst r.
    destruct (Z.eqb p q) eqn:Epq; [apply Z.eqb_eq in Epq; contradiction|]. exact IH.
  - cbn [lookup]. rewrite IH. reflexivity.
Qed.

Lemma remove_length_lt : forall p l e, lookup p l = Some e ->
  (length (remove p l) < length l)%nat.
Proof.
  intros p l. induction l as [|[r e'] l IH]; cbn [lookup remove length]; intros e H; [discriminate|].
  destruct (Z.eqb p r) eqn:E.
  - assert (length (remove p l) <= length l)%nat; [|lia].
    clear. induction l as [|[r e] l IH]; cbn [remove length]; [lia|].
    destruct (Z.eqb p r); cbn [length]; lia.
  - cbn [length]. specialize (IH e H). lia.
Qed.

Lemma lookup_nil_none : forall p l, l = [] -> lookup p l = None.
Proof. intros; subst; reflexivity. Qed.

Lemma is_nil_true : forall A (l : list A), is_nil l = true <-> l = [].
Proof. intros A [|a l]; cbn; split; intro H; try reflexivity; discriminate. Qed.

(* ---------------------------------------------------------------- the invariant *)

(* no lost wake-up: a non-empty queue always has somebody who will make the
   consumer run: a token in Ch, a producer that saw "empty" and has not yet
   done its send, or the consumer itself on its way to Get *)
Definition wake (s : state) : Prop :=
  queue s <> [] ->
  chan s = true \/ (exists p, lookup p (prods s) = Some true) \/ cons s = CGot.

(* exactly once, in order: what was handed out plus what is queued is what
   was put, in the order of the locked sections *)
Definition ordered (s : state) : Prop :=
  concat (gots s) ++ queue s = puts s.

Definition Inv (s : state) : Prop := wake s /\ ordered s.

Lemma Inv_init : Inv init.
Proof. split; [intro H; exfalso; apply H; reflexivity | reflexivity]. Qed.

Lemma wake_step : forall s a s', wake s -> step s a = Some s' -> wake s'.
Proof.
  intros s a s' W Hs. unfold wake in *. destruct a as [p v|p| | |]; cbn [step] in Hs.
  - (* LPutLock *)
    destruct (lookup p (prods s)) eqn:L; [discriminate|]. inversion Hs; subst s'; clear Hs.
    cbn [queue chan prods cons]. intros _.
    destruct (queue s) as [|x q] eqn:Q.
    + right; left. exists p. cbn [lookup is_nil]. rewrite Z.eqb_refl. reflexivity.
    + destruct W as [Hc|[(p' & Hp')|Hg]]; [discriminate| left; exact Hc | | right; right; exact Hg].
      right; left. exists p'. cbn [lookup].
      destruct (Z.eqb p' p) eqn:E; [|exact Hp'].
      apply Z.eqb_eq in E. subst p'. rewrite L in Hp'. discriminate.
  - (* LPutSend *)
    destruct (lookup p (prods s)) as [e|] eqn:L; [|discriminate].
    inversion Hs; subst s'; clear Hs. cbn [queue chan prods cons]. intros Hq.
    destruct e; [left; reflexivity|].
    destruct (W Hq) as [Hc|[(p' & Hp')|Hg]]; [left; exact Hc | | right; right; exact Hg].
    right; left. exists p'. rewrite lookup_remove_neq; [exact Hp'|].
    intro; subst p'. rewrite L in Hp'. discriminate.
  - (* LRecv *)
    destruct (cons s); [|discriminate]. destruct (chan s); [|discriminate].
    inversion Hs; subst s'. cbn [queue chan prods cons]. intros _. right; right; reflexivity.
  - (* LGet *)
    destruct (cons s); [discriminate|]. inversion Hs; subst s'. cbn [queue].
    intro H; exfalso; apply H; reflexivity.
  - (* LGetDirect *)
    inversion Hs; subst s'. cbn [queue]. intro H; exfalso; apply H; reflexivity.
Qed.

Lemma ordered_step : forall s a s', ordered s -> step s a = Some s' -> ordered s'.
Proof.
  intros s a s' O Hs. unfold ordered in *. destruct a as [p v|p| | |]; cbn [step] in Hs.
  - destruct (lookup p (prods s)); [discriminate|]. inversion Hs; subst s'.
    cbn [gots queue puts]. rewrite app_assoc, O. reflexivity.
  - destruct (lookup p (prods s)); [|discriminate]. inversion Hs; subst s'. exact O.
  - destruct (cons s); [|discriminate]. destruct (chan s); [|discriminate].
    inversion Hs; subst s'. exact O.
  - destruct (cons s); [discriminate|]. inversion Hs; subst s'.
    cbn [gots queue puts]. rewrite concat_app. cbn [concat]. rewrite !app_nil_r. exact O.
  - inversion Hs; subst s'.
    cbn [gots queue puts]. rewrite concat_app. cbn [concat]. rewrite !app_nil_r. exact O.
Qed.

Lemma Inv_step : forall s a s', Inv s -> step s a = Some s' -> Inv s'.
Proof. intros s a s' [W O] H. split; [eapply wake_step | eapply ordered_step]; eassumption. Qed.

Lemma Inv_exec : forall l s s', Inv s -> exec s l = Some s' -> Inv s'.
Proof.
  induction l as [|a l IH]; cbn [exec]; intros s s' I H.
  - inversion H; subst; exact I.
  - destruct (step s a) as [s1|] eqn:E; [|discriminate].
    exact (IH s1 s' (Inv_step _ _ _ I E) H).
Qed.

Lemma reachable_Inv : forall l s, exec init l = Some s -> Inv s.
Proof. intros l s H. exact (Inv_exec l init s Inv_init H). Qed.

(* the ghost [puts] is the lock order of the schedule's Puts *)
Lemma puts_step : forall s a s', step s a = Some s' -> puts s' = puts s ++ put_order [a].
Proof.
  intros s a s' Hs. destruct a as [p v|p| | |]; cbn [step] in Hs; cbn [put_order].
  - destruct (lookup p (prods s)); [discriminate|]. inversion Hs; subst s'. reflexivity.
  - destruct (lookup p (prods s)); [|discriminate]. inversion Hs; subst s'. cbn. now rewrite app_nil_r.
  - destruct (cons s); [|discriminate]. destruct (chan s); [|discriminate].
    inversion Hs; subst s'. cbn. now rewrite app_nil_r.
  - destruct (cons s); [discriminate|]. inversion Hs; subst s'. cbn. now rewrite app_nil_r.
  - inversion Hs; subst s'. cbn. now rewrite app_nil_r.
Qed.

Lemma put_order_cons : forall a l, put_order (a :: l) = put_order [a] ++ put_order l.
Proof. intros a l. destruct a; reflexivity. Qed.

Lemma put_order_app : forall l1 l2, put_order (l1 ++ l2) = put_order l1 ++ put_order l2.
Proof.
  induction l1 as [|a l1 IH]; intro l2; [reflexivity|].
  rewrite <- app_comm_cons, (put_order_cons a (l1 ++ l2)), (put_order_cons a l1), IH, app_assoc. reflexivity.
Qed.

Lemma puts_exec : forall l s s', exec s l = Some s' -> puts s' = puts s ++ put_order l.
Proof.
  induction l as [|a l IH]; cbn [exec]; intros s s' H.
  - inversion H; subst. cbn. now rewrite app_nil_r.
  - destruct (step s a) as [s1|] eqn:E; [|discriminate].
    rewrite (put_order_cons a l), (IH s1 s' H), (puts_step _ _ _ E), app_assoc. reflexivity.
Qed.

Lemma exec_app : forall l1 l2 s s1 s2,
  exec s l1 = Some s1 -> exec s1 l2 = Some s2 -> exec s (l1 ++ l2) = Some s2.
Proof.
  induction l1 as [|a l1 IH]; cbn [exec app]; intros l2 s s1 s2 H1 H2.
  - inversion H1; subst. exact H2.
  - destruct (step s a) as [s'|]; [|discriminate]. exact (IH l2 s' s1 s2 H1 H2).
Qed.

(* ---------------------------------------------------------------- theorems *)

Theorem no_lost_wakeup_inv : forall l s, exec init l = Some s ->
  queue s <> [] ->
  chan s = true \/ (exists p, lookup p (prods s) = Some true) \/ cons s = CGot.
Proof. intros l s H. exact (proj1 (reachable_Inv l s H)). Qed.

(* the consumer is never blocked for ever with a non-empty queue: when no
   producer is inside a Put, it can take a step *)
Theorem consumer_not_stuck : forall l s, exec init l = Some s ->
  queue s <> [] -> prods s = [] ->
  exists a s', (a = LRecv \/ a = LGet) /\ step s a = Some s'.
Proof.
  intros l s H Hq Hp.
  destruct (no_lost_wakeup_inv l s H Hq) as [Hc|[(p & Hl)|Hg]].
  - destruct (cons s) eqn:C.
    + eexists LRecv, _. split; [left; reflexivity|]. cbn [step]. rewrite C, Hc. reflexivity.
    + eexists LGet, _. split; [right; reflexivity|]. cbn [step]. rewrite C. reflexivity.
  - rewrite Hp in Hl. discriminate.
  - eexists LGet, _. split; [right; reflexivity|]. cbn [step]. rewrite Hg. reflexivity.
Qed.

Theorem exactly_once_in_order : forall l s, exec init l = Some s ->
  concat (gots s) ++ queue s = put_order l.
Proof.
  intros l s H. rewrite (proj2 (reachable_Inv l s H)), (puts_exec l init s H). reflexivity.
Qed.

Lemma nodup_app_l : forall (l1 l2 : list Z), NoDup (l1 ++ l2) -> NoDup l1.
Proof.
  induction l1 as [|x l1 IH]; intros l2 N; [constructor|].
  rewrite <- app_comm_cons in N. inversion N as [|? ? Hn N']; subst. constructor.
  - intro Hin. apply Hn. apply in_or_app. left; exact Hin.
  - exact (IH l2 N').
Qed.

(* prefix, and nothing twice when the values put are distinct *)
Corollary delivered_prefix : forall l s, exec init l = Some s ->
  exists rest, put_order l = concat (gots s) ++ rest.
Proof. intros l s H. exists (queue s). symmetry. exact (exactly_once_in_order l s H). Qed.

Corollary delivered_nodup : forall l s, exec init l = Some s ->
  NoDup (put_order l) -> NoDup (concat (gots s)).
Proof.
  intros l s H N. rewrite <- (exactly_once_in_order l s H) in N.
  exact (nodup_app_l _ _ N).
Qed.

(* quiescence: no token, nobody inside Put, consumer waiting *)
Definition quiescent (s : state) : Prop :=
  prods s = [] /\ chan s = false /\ cons s = CWait.

Theorem quiescent_all_delivered : forall l s, exec init l = Some s ->
  quiescent s -> queue s = [] /\ concat (gots s) = put_order l.
Proof.
  intros l s H (Hp & Hc & Hw).
  assert (Hq : queue s = []).
  { destruct (queue s) as [|x q] eqn:Q; [reflexivity|exfalso].
    assert (Hne : queue s <> []) by (rewrite Q; discriminate).
    destruct (no_lost_wakeup_inv l s H Hne) as [Hc'|[(p & Hl)|Hg]].
    - rewrite Hc in Hc'. discriminate.
    - rewrite Hp in Hl. discriminate.
    - rewrite Hw in Hg. discriminate. }
  split; [exact Hq|]. rewrite <- (exactly_once_in_order l s H), Hq, app_nil_r. reflexivity.
Qed.

(* termination of the drain *)
Lemma measure_step : forall s a s', loop_label a -> step s a = Some s' ->
  (measure s' < measure s)%nat.
Proof.
  intros s a s' La Hs. unfold measure. destruct a as [p v|p| | |]; cbn [loop_label] in La; try contradiction;
    cbn [step] in Hs.
  - destruct (lookup p (prods s)) as [e|] eqn:L; [|discriminate].
    inversion Hs; subst s'. cbn [prods chan cons].
    pose proof (remove_length_lt p (prods s) e L).
    destruct e, (chan s), (cons s); lia.
  - destruct (cons s) eqn:C; [|discriminate]. destruct (chan s) eqn:Ch; [|discriminate].
    inversion Hs; subst s'. cbn [prods chan cons]. lia.
  - destruct (cons s) eqn:C; [discriminate|]. inversion Hs; subst s'. cbn [prods chan cons].
    destruct (chan s); lia.
Qed.

Lemma measure_exec : forall l s s', Forall loop_label l -> exec s l = Some s' ->
  (length l + measure s' <= measure s)%nat.
Proof.
  induction l as [|a l IH]; cbn [exec length]; intros s s' F H.
  - inversion H; subst. lia.
  - destruct (step s a) as [s1|] eqn:E; [|discriminate].
    inversion F as [|? ? Fa Fl]; subst.
    pose proof (measure_step s a s1 Fa E). pose proof (IH s1 s' Fl H). lia.
Qed.

Lemma put_order_loop : forall l, Forall loop_label l -> put_order l = [].
Proof.
  induction l as [|a l IH]; intro F; [reflexivity|].
  inversion F as [|? ? Fa Fl]; subst. destruct a; cbn [loop_label] in Fa; try contradiction;
    cbn [put_order]; exact (IH Fl).
Qed.

Lemma stuck_quiescent : forall s,
  (forall a, loop_label a -> step s a = None) -> quiescent s.
Proof.
  intros s Hn. unfold quiescent.
  assert (Hp : prods s = []).
  { destruct (prods s) as [|[p e] r] eqn:P; [reflexivity|exfalso].
    specialize (Hn (LPutSend p) I). cbn [step] in Hn. rewrite P in Hn. cbn [lookup] in Hn.
    rewrite Z.eqb_refl in Hn. discriminate. }
  assert (Hw : cons s = CWait).
  { destruct (cons s) eqn:C; [reflexivity|exfalso].
    specialize (Hn LGet I). cbn [step] in Hn. rewrite C in Hn. discriminate. }
  split; [exact Hp|]. split; [|exact Hw].
  destruct (chan s) eqn:Ch; [exfalso|reflexivity].
  specialize (Hn LRecv I). cbn [step] in Hn. rewrite Hw, Ch in Hn. discriminate.
Qed.

(* once the producers stop starting Puts, every continuation has at most
   [measure s] further steps, and when none is left everything that was put
   has been handed to the consumer, in order *)
Theorem drain_terminates_delivered : forall l s, exec init l = Some s ->
  forall l' s', Forall loop_label l' -> exec s l' = Some s' ->
  (length l' <= measure s)%nat /\
  ((forall a, loop_label a -> step s' a = None) ->
   queue s' = [] /\ concat (gots s') = put_order l).
Proof.
  intros l s H l' s' F H'. split.
  - pose proof (measure_exec l' s s' F H'). lia.
  - intro Hn. pose proof (exec_app l l' init s s' H H') as Hall.
    destruct (quiescent_all_delivered (l ++ l') s' Hall (stuck_quiescent s' Hn)) as [Hq Hd].
    split; [exact Hq|]. rewrite Hd, put_order_app, (put_order_loop l' F), app_nil_r. reflexivity.
Qed.

(* as long as something remains queued and the drain has not come to rest,
   some loop step IS enabled (no deadlock of the protocol) *)
Theorem drain_progress : forall l s, exec init l = Some s -> queue s <> [] ->
  exists a s', loop_label a /\ step s a = Some s'.
Proof.
  intros l s H Hq.
  destruct (no_lost_wakeup_inv l s H Hq) as [Hc|[(p & Hl)|Hg]].
  - destruct (cons s) eqn:C.
    + eexists LRecv, _. split; [exact I|]. cbn [step]. rewrite C, Hc. reflexivity.
    + eexists LGet, _. split; [exact I|]. cbn [step]. rewrite C. reflexivity.
  - eexists (LPutSend p), _. split; [exact I|]. cbn [step]. rewrite Hl. reflexivity.
  - eexists LGet, _. split; [exact I|]. cbn [step]. rewrite Hg. reflexivity.
Qed.

(* ---------------------------------------------------------------- the invariant is tight *)

(* The defect "send only when the queue was NON-empty" (or forgetting the
   send) loses the wake-up: with [step] changed that way the state
   queue=[v], no token, nobody pending, consumer waiting is reachable.  We
   record the corresponding fact about the real protocol: the only thing that
   saves the consumer in the state after [LPutLock] is the pending producer. *)
Example pending_producer_is_the_only_wakeup :
  exists s, exec init [LPutLock 1 10] = Some s /\
            queue s = [10] /\ chan s = false /\ cons s = CWait /\
            lookup 1 (prods s) = Some true /\ step s LRecv = None.
Proof. eexists. split; [vm_compute; reflexivity|]. vm_compute. repeat split; reflexivity. Qed.

(* C14, part 11: delivery.  `user` messages reach an outbox in one way only:
   the owner of the outbox serves a queued user event of ITS OWN group; the
   messages appear in queue order.  No other step of anybody appends a
   `user` message to any outbox. *)
From Coq Require Import ZArith List Bool String Arith Lia.
From Galene Require Import Generated.Guards Model.Signal Model.SignalUsers
  Proofs.SignalFrame Proofs.SignalSafe Proofs.SignalUsersBase Proofs.SignalUsersFrame
  Proofs.SignalUsersInv Proofs.SignalUsersAnnounce Proofs.SignalUsersLeave
  Proofs.SignalUsersJoin Proofs.SignalUsersMisc Proofs.SignalUsersSteps.
Import ListNotations.
Open Scope string_scope.
Open Scope list_scope.

Definition umsg (m : outmsg) : bool := String.eqb (o_type m) "user".
Definition uout (c : client) : list outmsg := filter umsg (c_out c).

(* the user events of a batch that its owner, in group [cg], will deliver *)
Definition own_event (cg : option str) (a : action) : list outmsg :=
  match a, cg with
  | APushClient g k i u p _, Some g' => if String.eqb g g' then [out_user k i u p] else []
  | _, _ => []
  end.
Definition own_events (cg : option str) (q : list action) : list outmsg := flat_map (own_event cg) q.

(* client h's outbox gains the user messages [ev], nobody else's gains any;
   [keep] = no client changes group *)
Definition dframe (keep : bool) (h : nat) (ev : list outmsg) (w w' : world) : Prop :=
  forall i c, get_client w i = Some c ->
    exists c', get_client w' i = Some c' /\
      (keep = true -> c_group c' = c_group c) /\
      uout c' = uout c ++ (if Nat.eqb i h then ev else []).

Lemma dframe_refl : forall keep h w, dframe keep h [] w w.
Proof.
  intros keep h w i c Hc. exists c. split; [exact Hc|]. split; [reflexivity|].
  destruct (Nat.eqb i h); rewrite app_nil_r; reflexivity.
Qed.

Lemma dframe_trans : forall keep h ev1 ev2 w1 w2 w3,
  dframe keep h ev1 w1 w2 -> dframe keep h ev2 w2 w3 -> dframe keep h (ev1 ++ ev2) w1 w3.
Proof.
  intros keep h ev1 ev2 w1 w2 w3 H1 H2 i c Hc.
  destruct (H1 i c Hc) as (c2 & Hc2 & Hg2 & Hu2). destruct (H2 i c2 Hc2) as (c3 & Hc3 & Hg3 & Hu3).
  exists c3. split; [exact Hc3|]. split.
  - intros Hk. rewrite (Hg3 Hk), (Hg2 Hk). reflexivity.
  - rewrite Hu3, Hu2, <- app_assoc. destruct (Nat.eqb i h); [reflexivity | rewrite !app_nil_r; reflexivity].
Qed.

Lemma dframe_nil_trans : forall keep h w1 w2 w3,
  dframe keep h [] w1 w2 -> dframe keep h [] w2 w3 -> dframe keep h [] w1 w3.
Proof. intros. apply (dframe_trans keep h [] [] w1 w2 w3); assumption. Qed.

Lemma dframe_peel : forall keep h w w1 w2,
  dframe keep h [] w1 w2 -> dframe keep h [] w w1 -> dframe keep h [] w w2.
Proof. intros. eapply dframe_nil_trans; eauto. Qed.

Lemma dframe_weaken : forall h ev w w', dframe true h ev w w' -> dframe false h ev w w'.
Proof.
  intros h ev w w' H i c Hc. destruct (H i c Hc) as (c' & Hc' & _ & Hu).
  exists c'. split; [exact Hc'|]. split; [discriminate | exact Hu].
Qed.

Lemma dframe_upd : forall keep h x f w,
  (forall c, c_out (f c) = c_out c) -> (keep = true -> forall c, c_group (f c) = c_group c) ->
  dframe keep h [] w (upd w x f).
Proof.
  intros keep h x f w Ho Hg i c Hc. rewrite get_client_upd, Hc.
  destruct (Nat.eqb i x); cbn [option_map]; eexists; (split; [reflexivity|]); split; auto;
    unfold uout; rewrite ?Ho; destruct (Nat.eqb i h); rewrite app_nil_r; reflexivity.
Qed.

Lemma dframe_enq : forall keep h x a w, dframe keep h [] w (enq w x a).
Proof. intros. apply dframe_upd; intros; reflexivity. Qed.

Lemma dframe_send : forall keep h x m w, umsg m = false -> dframe keep h [] w (send w x m).
Proof.
  intros keep h x m w Hm i c Hc. unfold send. rewrite get_client_upd, Hc.
  destruct (Nat.eqb i x); cbn [option_map]; eexists; (split; [reflexivity|]); split; auto.
  - unfold uout. cbn [c_out set_out]. rewrite filter_app. cbn [filter]. rewrite Hm.
    destruct (Nat.eqb i h); rewrite !app_nil_r; reflexivity.
  - destruct (Nat.eqb i h); rewrite app_nil_r; reflexivity.
Qed.

Lemma dframe_fold : forall (A : Type) keep h (F : world -> A -> world) l w,
  (forall w a, dframe keep h [] w (F w a)) -> dframe keep h [] w (fold_left F l w).
Proof.
  intros A keep h F l. induction l as [|a l IH]; intros w H; cbn [fold_left].
  - apply dframe_refl.
  - eapply dframe_nil_trans; [apply H | apply IH; exact H].
Qed.

Lemma dframe_enq_all : forall keep h hs a w, dframe keep h [] w (enq_all w hs a).
Proof. intros. unfold enq_all. apply dframe_fold. intros. apply dframe_enq. Qed.

Lemma dframe_same_clients : forall keep h w w',
  (forall i, get_client w' i = get_client w i) -> dframe keep h [] w w'.
Proof.
  intros keep h w w' H i c Hc. exists c. rewrite H. split; [exact Hc|]. split; [reflexivity|].
  destruct (Nat.eqb i h); rewrite app_nil_r; reflexivity.
Qed.

Lemma nmsg_not_user : forall oa, forallb nmsg oa = true -> filter umsg oa = [].
Proof.
  induction oa as [|m oa IH]; intros H; [reflexivity|]. cbn [forallb] in H.
  apply andb_prop in H. destruct H as [H1 H2]. cbn [filter].
  unfold nmsg in H1. apply andb_prop in H1. destruct H1 as [H1 _]. apply negb_true_iff in H1.
  unfold umsg. rewrite H1. apply IH. exact H2.
Qed.

Lemma dframe_neutral : forall keep h w w', neutral w w' -> dframe keep h [] w w'.
Proof.
  intros keep h w w' Hn i c Hc. destruct (neutral_client w w' i c Hn Hc) as (c' & Hc' & [Hco (qa & oa & _ & _ & Ho & Hm)]).
  exists c'. split; [exact Hc'|]. split; [intros _; unfold core in Hco; congruence|].
  unfold uout. rewrite Ho, filter_app, (nmsg_not_user oa Hm).
  destruct (Nat.eqb i h); rewrite !app_nil_r; reflexivity.
Qed.

(* ------------------------------------------------------------------ *)
(* Composite worlds                                                    *)

Lemma dframe_push_all : forall keep h w g hs k i u p d,
  dframe keep h [] w (push_client_all w g hs k i u p d).
Proof. intros. apply dframe_enq_all. Qed.

Lemma dframe_leave_group : forall h x w, dframe false h [] w (leave_group w x).
Proof.
  intros h x w. unfold leave_group.
  destruct (get_client w x) as [c|]; [|apply dframe_refl].
  destruct (c_group c) as [g|]; [|apply dframe_refl]. cbv zeta.
  eapply dframe_peel; [apply dframe_upd; [reflexivity | discriminate]|].
  eapply dframe_peel; [apply dframe_push_all|].
  eapply dframe_peel; [apply dframe_enq|].
  eapply dframe_peel; [apply dframe_same_clients; intros; apply get_client_upd_group|].
  eapply dframe_peel; [apply dframe_upd; [reflexivity | discriminate]|].
  apply dframe_neutral, neutral_del_all_ups.
Qed.

Lemma dframe_error_close : forall h x e w, dframe false h [] w (error_close w x e).
Proof.
  intros h x e w. unfold error_close.
  destruct (get_client w x) as [c|]; [|apply dframe_refl]. cbv zeta.
  eapply dframe_peel; [apply dframe_upd; [reflexivity | discriminate]|].
  eapply dframe_peel; [apply dframe_send; reflexivity|].
  destruct e; try apply dframe_leave_group;
    (eapply dframe_peel; [apply dframe_send; reflexivity | apply dframe_leave_group]).
Qed.

Lemma dframe_join_step : forall h x g a1 w cc, dframe false h [] w (join_step x g a1 w cc).
Proof.
  intros. unfold join_step. destruct (get_client w cc); [|apply dframe_refl].
  eapply dframe_peel; apply dframe_enq.
Qed.

Lemma dframe_attach : forall h w x c1 g rec hs, dframe false h [] w (attach w x c1 g rec hs).
Proof.
  intros. unfold attach. cbv zeta.
  eapply dframe_peel; [apply dframe_fold; intros; apply dframe_join_step|].
  assert (H4 : dframe false h [] w
            (enq (enq (upd_group w g (fun gr => gset_members gr (g_members gr ++ [x]))) x (AJoined g "join"))
                 x (add_act g c1))).
  { eapply dframe_peel; [apply dframe_enq|]. eapply dframe_peel; [apply dframe_enq|].
    apply dframe_same_clients. intros. apply get_client_upd_group. }
  destruct rec; [eapply dframe_peel; [apply dframe_enq | exact H4] | exact H4].
Qed.

Lemma dframe_handle_join : forall h w x c m r,
  handle_join w x c m = Ok r -> dframe false h [] w (r_world r).
Proof.
  intros h w x c m r H. unfold handle_join in H.
  destruct (String.eqb (m_kind m) "leave").
  { repeat break_hyp H; finish_ok H; try apply dframe_refl. apply dframe_leave_group. }
  destruct (negb (String.eqb (m_kind m) "join")); [finish_ok H; apply dframe_refl|].
  destruct (c_group c); [finish_ok H; apply dframe_refl|].
  cbv zeta in H.
  match type of H with (if ?b then _ else _) = _ => destruct b end.
  { finish_ok H. apply dframe_send. reflexivity. }
  set (w0 := upd w x (fun c0 => set_data c0 (m_data m))) in *.
  assert (H0 : dframe false h [] w w0) by (apply dframe_upd; [reflexivity | discriminate]).
  destruct (add_client w0 x _ (m_group m) (m_username m) (m_password m) (m_token m)) as [wr oe] eqn:Ea.
  destruct (add_client_result _ _ _ _ _ _ _ _ _ Ea) as (w1 & c1 & Hrel & Hres).
  assert (H1 : dframe false h [] w w1).
  { destruct Hrel as [[-> _] | (uname & perms & -> & _)]; [exact H0|].
    eapply dframe_peel; [apply dframe_upd; [reflexivity | discriminate] | exact H0]. }
  destruct Hres as [[Hoe ->] | (-> & gr & Hgr & Hnew & ->)].
  - destruct oe as [e|]; [|congruence]. destruct (join_fail_text e) as [ec v]. finish_ok H.
    eapply dframe_peel; [apply dframe_send; reflexivity|].
    eapply dframe_peel; [apply dframe_upd; [reflexivity | discriminate] | exact H1].
  - finish_ok H. eapply dframe_peel; [apply dframe_upd; [reflexivity | discriminate]|].
    eapply dframe_peel; [apply dframe_attach | exact H1].
Qed.

(* no message handler appends a user message to any outbox *)
Lemma dframe_handle_client_message : forall h w x c m r,
  handle_client_message w x c m = Ok r -> dframe false h [] w (r_world r).
Proof.
  intros h w x c m r H. unfold handle_client_message in H.
  match type of H with (if ?b then _ else _) = _ => destruct b end; [finish_ok H; apply dframe_refl|].
  match type of H with (if ?b then _ else _) = _ => destruct b end; [finish_ok H; apply dframe_refl|].
  cbv zeta in H.
  destruct (String.eqb (m_type m) "join"); [eapply dframe_handle_join; eauto|].
  destruct (String.eqb (m_type m) "request"); [apply dframe_neutral; eapply handle_request_neutral; eauto|].
  destruct (String.eqb (m_type m) "requestStream"); [apply dframe_neutral; eapply handle_request_stream_neutral; eauto|].
  destruct (String.eqb (m_type m) "offer"); [apply dframe_neutral; eapply handle_offer_neutral; eauto|].
  destruct (String.eqb (m_type m) "answer"); [apply dframe_neutral; eapply handle_answer_neutral; eauto|].
  destruct (String.eqb (m_type m) "renegotiate"); [apply dframe_neutral; eapply handle_renegotiate_neutral; eauto|].
  destruct (String.eqb (m_type m) "close"); [apply dframe_neutral; eapply handle_close_neutral; eauto|].
  destruct (String.eqb (m_type m) "abort"); [apply dframe_neutral; eapply handle_abort_neutral; eauto|].
  destruct (String.eqb (m_type m) "ice"); [apply dframe_neutral; eapply handle_ice_neutral; eauto|].
  destruct (String.eqb (m_type m) "chat" || String.eqb (m_type m) "usermessage") eqn:Ec.
  { apply dframe_neutral. eapply handle_chat_neutral; [|exact H].
    apply orb_prop in Ec. destruct Ec as [E | E]; apply eqb_true in E; auto. }
  destruct (String.eqb (m_type m) "groupaction").
  { destruct (c_group c) as [g|] eqn:Eg.
    - destruct (handle_groupaction_cases w x c m r g Eg H) as [Hn | [(gr & Hgr & ->) | (gr & Hgr & ->)]].
      + apply dframe_neutral. exact Hn.
      + unfold record_world. cbv zeta.
        eapply dframe_peel; [apply dframe_enq_all|].
        eapply dframe_peel; [apply dframe_push_all|].
        apply dframe_same_clients. intros. apply get_client_upd_group.
      + unfold unrecord_world. cbv zeta.
        eapply dframe_peel; [apply dframe_push_all|].
        apply dframe_same_clients. intros. apply get_client_upd_group.
    - unfold handle_groupaction in H. rewrite Eg in H. cbv zeta in H. rewrite nm_groupaction in H.
      finish_ok H. apply dframe_neutral. ntl. }
  destruct (String.eqb (m_type m) "useraction").
  { destruct (c_group c) as [g|] eqn:Eg.
    - destruct (handle_useraction_cases w x c m r g Eg H) as [Hn | (d & ->)].
      + apply dframe_neutral. exact Hn.
      + unfold setdata_world. cbv zeta.
        eapply dframe_peel; [apply dframe_push_all | apply dframe_upd; [reflexivity | discriminate]].
    - unfold handle_useraction in H. rewrite Eg in H. cbv zeta in H. rewrite nm_useraction in H.
      finish_ok H. apply dframe_neutral. ntl. }
  destruct (String.eqb (m_type m) "pong"); [finish_ok H; apply dframe_refl|].
  destruct (String.eqb (m_type m) "ping"); [finish_ok H; apply dframe_send; reflexivity|].
  finish_ok H. apply dframe_refl.
Qed.

(* serving one action: a user event of the owner's group is delivered, every
   other action delivers no user message; nobody changes group *)
Lemma dframe_handle_action : forall w h c a res,
  get_client w h = Some c -> handle_action w h c a = Ok res ->
  dframe true h (own_event (c_group c) a) w (r_world res) /\ (r_err res <> ENone -> own_event (c_group c) a = []).
Proof.
  intros w h c a res Hc H. destruct a; cbn [handle_action] in H.
  - split; [|reflexivity]. cbn [own_event].
    destruct (opt_str_eqb (c_group c) g); finish_ok H; [apply dframe_neutral; ntl | apply dframe_refl].
  - split; [|reflexivity]. cbn [own_event].
    destruct (opt_str_eqb (c_group c) g); [destruct target|]; finish_ok H; try apply dframe_refl.
    apply dframe_fold. intros w0 u. destruct (_ && _); [apply dframe_refl | apply dframe_enq].
  - split; [|reflexivity]. cbn [own_event].
    destruct (find_down c id); [|destruct (find_up c id)]; finish_ok H;
      try apply dframe_refl; apply dframe_send; reflexivity.
  - (* APushClient *)
    cbn [own_event]. destruct (c_group c) as [g'|] eqn:Eg; [destruct (String.eqb g g')|];
      finish_ok H; (split; [|congruence]); try apply dframe_refl.
    intros i ci Hi. unfold send. rewrite get_client_upd, Hi.
    destruct (Nat.eqb i h); cbn [option_map]; eexists; (split; [reflexivity|]); split; auto.
    + unfold uout. cbn [c_out set_out]. rewrite filter_app. reflexivity.
    + rewrite app_nil_r. reflexivity.
  - split; [|reflexivity]. cbn [own_event]. cbv zeta in H.
    destruct (String.eqb kind "join");
      [destruct (if is_empty g then None else find_group w g) as [gr|]|]; finish_ok H;
      try (apply dframe_send; reflexivity).
    eapply dframe_peel; [apply dframe_fold; intros; apply dframe_send; reflexivity|].
    apply dframe_send. reflexivity.
  - split; [|reflexivity]. cbn [own_event].
    destruct (negb (opt_str_eqb (c_group c) (Some g))); [finish_ok H; apply dframe_refl|].
    cbv zeta in H. destruct (change_perms _ kind (c_perms c)); finish_ok H; [|apply dframe_refl].
    eapply dframe_peel; [apply dframe_enq | apply dframe_upd; intros; reflexivity].
  - split; [|reflexivity]. cbn [own_event].
    destruct (c_group c) as [g|]; [|finish_ok H; apply dframe_refl]. cbv zeta in H. finish_ok H.
    eapply dframe_peel; [apply dframe_push_all|].
    apply dframe_neutral. destruct (mem "present" (c_perms c)); ntl.
  - split; [|reflexivity]. finish_ok H. apply dframe_refl.
Qed.

Lemma own_events_app : forall cg q1 q2, own_events cg (q1 ++ q2) = own_events cg q1 ++ own_events cg q2.
Proof. intros. unfold own_events. apply flat_map_app. Qed.

(* one batch: a prefix of the queue is served (all of it unless an action
   fails), and exactly its own-group user events are delivered, in order *)
Lemma run_batch_deliver : forall q w h c res,
  get_client w h = Some c -> run_batch q w h = Ok res ->
  exists served rest, q = served ++ rest /\
    dframe true h (own_events (c_group c) served) w (r_world res) /\
    (r_err res = ENone -> rest = []).
Proof.
  induction q as [|a q IH]; intros w h c res Hc H; cbn [run_batch] in H.
  - finish_ok H. exists [], []. split; [reflexivity|]. split; [apply dframe_refl | reflexivity].
  - rewrite Hc in H. destruct (handle_action w h c a) as [res1|] eqn:Ea; [|discriminate].
    destruct (dframe_handle_action w h c a res1 Hc Ea) as [Hd Herr].
    destruct (r_err res1) eqn:Ee.
    + destruct (Hd h c Hc) as (c1 & Hc1 & Hg1 & _).
      destruct (IH (r_world res1) h c1 res Hc1 H) as (served & rest & Hq & Hd2 & Hr).
      exists (a :: served), rest. split; [cbn; rewrite Hq; reflexivity|]. split; [|exact Hr].
      change (a :: served) with ([a] ++ served). rewrite own_events_app.
      rewrite (Hg1 eq_refl) in Hd2. eapply dframe_trans; [|exact Hd2].
      unfold own_events. cbn [flat_map]. rewrite app_nil_r. exact Hd.
    + inversion H; subst res. exists [], (a :: q). split; [reflexivity|]. split; [|congruence].
      cbn [own_events flat_map]. rewrite <- (Herr ltac:(congruence)). exact Hd.
    + inversion H; subst res. exists [], (a :: q). split; [reflexivity|]. split; [|congruence].
      cbn [own_events flat_map]. rewrite <- (Herr ltac:(congruence)). exact Hd.
    + inversion H; subst res. exists [], (a :: q). split; [reflexivity|]. split; [|congruence].
      cbn [own_events flat_map]. rewrite <- (Herr ltac:(congruence)). exact Hd.
    + inversion H; subst res. exists [], (a :: q). split; [reflexivity|]. split; [|congruence].
      cbn [own_events flat_map]. rewrite <- (Herr ltac:(congruence)). exact Hd.
    + inversion H; subst res. exists [], (a :: q). split; [reflexivity|]. split; [|congruence].
      cbn [own_events flat_map]. rewrite <- (Herr ltac:(congruence)). exact Hd.
Qed.

(* ------------------------------------------------------------------ *)
(* The scheduler steps                                                 *)

Definition delivered (h : nat) (ev : list outmsg) (w w' : world) : Prop :=
  forall i c, get_client w i = Some c ->
    exists c', get_client w' i = Some c' /\ uout c' = uout c ++ (if Nat.eqb i h then ev else []).

Lemma dframe_delivered : forall keep h ev w w', dframe keep h ev w w' -> delivered h ev w w'.
Proof.
  intros keep h ev w w' H i c Hc. destruct (H i c Hc) as (c' & Hc' & _ & Hu). eauto.
Qed.

Lemma finish_delivered : forall o h wrap w' r w ev,
  (forall res, o = Ok res -> dframe false h ev w (r_world res)) ->
  finish o h wrap = Running w' r -> delivered h ev w w'.
Proof.
  intros o h wrap w' r w ev Ho H. unfold finish in H. destruct o as [res|]; [|discriminate].
  specialize (Ho res eq_refl).
  destruct (r_err res); inversion H; subst; try (eapply dframe_delivered; exact Ho);
    (eapply dframe_delivered; rewrite <- (app_nil_r ev);
     eapply dframe_trans; [exact Ho | apply dframe_error_close]).
Qed.

(* reading a message, a disconnection: no user message for anybody *)
Theorem deliver_msg : forall w h m w' r, step_msg w h m = Running w' r -> delivered h [] w w'.
Proof.
  intros w h m w' r H. unfold step_msg in H.
  destruct (get_client w h) as [c|]; [|inversion H; subst; eapply dframe_delivered, (dframe_refl false)].
  destruct (c_closed c); [inversion H; subst; eapply dframe_delivered, (dframe_refl false)|].
  eapply finish_delivered; [|exact H]. intros res Hr. eapply dframe_handle_client_message; eauto.
Qed.

Theorem deliver_disconnect : forall w h w' r, step_disconnect w h = Running w' r -> delivered h [] w w'.
Proof.
  intros w h w' r H. unfold step_disconnect in H.
  destruct (get_client w h) as [c|]; [|inversion H; subst; eapply dframe_delivered, (dframe_refl false)].
  destruct (c_closed c); inversion H; subst; [eapply dframe_delivered, (dframe_refl false)|].
  eapply dframe_delivered. apply dframe_error_close.
Qed.

(* serving the queue: the user events of the owner's group among the served
   prefix of its queue, in queue order, and nothing else, for nobody else *)
Theorem deliver_pump : forall w h c w' r,
  get_client w h = Some c -> c_closed c = false -> step_pump w h = Running w' r ->
  exists served rest, c_queue c = served ++ rest /\
    delivered h (own_events (c_group c) served) w w' /\
    (r = RPumped ENone -> rest = []).
Proof.
  intros w h c w' r Hc Hcl H. unfold step_pump in H. rewrite Hc, Hcl in H. cbv zeta in H.
  set (w1 := upd w h (fun c0 => set_queue c0 [])) in *.
  assert (Hc1 : get_client w1 h = Some (set_queue c []))
    by (apply (get_client_upd_self w h (fun c0 => set_queue c0 []) c Hc)).
  assert (H01 : dframe false h [] w w1) by (apply dframe_upd; [reflexivity | discriminate]).
  destruct (run_batch (c_queue c) w1 h) as [res|] eqn:Eb; [|discriminate].
  destruct (run_batch_deliver (c_queue c) w1 h _ res Hc1 Eb) as (served & rest & Hq & Hd & Hr).
  exists served, rest. split; [exact Hq|]. split.
  - eapply finish_delivered; [|exact H]. intros res0 E. inversion E; subst res0.
    change (own_events (c_group c) served) with ([] ++ own_events (c_group (set_queue c [])) served).
    eapply dframe_trans; [exact H01 | apply dframe_weaken; exact Hd].
  - intros Er. apply Hr. unfold finish in H.
    destruct (r_err res) eqn:Ee; inversion H; subst; try reflexivity; discriminate.
Qed.

Lemma deliver_step_pump : forall w h c w' r,
  get_client w h = Some c -> c_closed c = false -> step w (OpPump h) = Running w' r ->
  exists served rest, c_queue c = served ++ rest /\
    delivered h (own_events (c_group c) served) w w' /\
    (r = RPumped ENone -> rest = []).
Proof. exact deliver_pump. Qed.

Lemma deliver_step_other : forall w h m w' r,
  step w (OpMsg h m) = Running w' r \/ step w (OpDisconnect h) = Running w' r ->
  delivered h [] w w'.
Proof.
  intros w h m w' r [H | H]; [eapply deliver_msg | eapply deliver_disconnect]; exact H.
Qed.

(* C02: picture ids of forwarded VP8 frames stay consecutive.
   packetmap keeps (nextPid, pidDelta): Drop adds pid - nextPid to pidDelta,
   Map and Drop both set nextPid := pid.  Write passes -pidDelta to
   RewritePacket, which adds it to the picture id modulo 2^7 or 2^15. *)
From Coq Require Import ZArith List Bool Lia.
From Coq Require Import ZifyBool.
From Galene Require Import Lib.Word Generated.Consts Model.PacketMap Model.PacketMapL1.
Import ListNotations.
Open Scope Z_scope.
Ltac Zify.zify_post_hook ::= Z.div_mod_to_equations.

(* the scalar part of Map / Drop for an in-order packet *)
Definition pstep (st : Z * Z) (pk : Z * bool) : Z * Z :=
  let '(np, pd) := st in let '(pid, dropped) := pk in
  if dropped then (pid, w16 (pd + (pid - np))) else (pid, pd).

Lemma drop_scalars a s pid : l_started a = true -> s = l_next a ->
  fst (l1_drop a s pid) = true /\
  (l_nextPid (snd (l1_drop a s pid)), l_pidDelta (snd (l1_drop a s pid)))
  = pstep (l_nextPid a, l_pidDelta a) (pid, true).
Proof.
  intros Hst Hs. unfold l1_drop. rewrite Hst, Hs. cbn [negb orb].
  replace (l_next a =? l_next a) with true by lia. cbn [negb fst snd].
  split; [reflexivity|].
  set (a' := match l_view a with [] => _ | _ => a end).
  assert (Ha' : l_nextPid a' = l_nextPid a /\ l_pidDelta a' = l_pidDelta a)
    by (unfold a'; destruct (l_view a); cbn; auto).
  assert (Hr : l_nextPid (l1_retire a') = l_nextPid a' /\ l_pidDelta (l1_retire a') = l_pidDelta a').
  { unfold l1_retire. destruct (l_view a'); [auto|]. destruct (_ <? retireAge); [auto|]. cbn. auto. }
  cbn [l_nextPid l_pidDelta pstep]. destruct Ha' as (Ha1 & Ha2). destruct Hr as (Hr1 & Hr2).
  rewrite Hr1, Hr2, Ha1, Ha2. reflexivity.
Qed.

(* the number of withheld frames: a withheld packet starts a new withheld
   frame when its id differs from the id of the packet before it *)
Fixpoint dropped_frames (w : Z) (np : Z) (hist : list (Z * bool)) : Z :=
  match hist with
  | [] => 0
  | (pid, dropped) :: hist' =>
      (if dropped && negb ((pid - np) mod 2 ^ w =? 0) then 1 else 0)
      + dropped_frames w pid hist'
  end.

(* ids are consecutive per frame: each packet has the id of the previous one
   or the next id (mod 2^w) *)
Fixpoint ids_consecutive (w : Z) (np : Z) (hist : list (Z * bool)) : Prop :=
  match hist with
  | [] => True
  | (pid, _) :: hist' =>
      0 <= pid < 2 ^ w /\ ((pid - np) mod 2 ^ w = 0 \/ (pid - np) mod 2 ^ w = 1) /\
      ids_consecutive w pid hist'
  end.

Lemma pid_delta_counts (w : Z) : (w = 7 \/ w = 15) ->
  forall hist np pd, 0 <= np < 2 ^ w -> ids_consecutive w np hist ->
  let '(_, pd') := fold_left pstep hist (np, pd) in
  pd' mod 2 ^ w = (pd + dropped_frames w np hist) mod 2 ^ w.
Proof.
  intros Hw. induction hist as [|[pid dropped] hist IH]; intros np pd Hnp Hc.
  - cbn. f_equal. lia.
  - cbn [fold_left ids_consecutive dropped_frames] in *. destruct Hc as (Hpid & Hd & Hc).
    destruct dropped; cbn [pstep andb].
    + specialize (IH pid (w16 (pd + (pid - np))) Hpid Hc).
      destruct (fold_left pstep hist (pid, w16 (pd + (pid - np)))) as [np' pd'].
      rewrite IH. unfold w16.
      destruct Hw as [-> | ->]; destruct Hd as [Hd|Hd];
        destruct (_ =? 0) eqn:E; cbn [negb]; change (2 ^ 7) with 128 in *; change (2 ^ 15) with 32768 in *; lia.
    + specialize (IH pid pd Hpid Hc).
      destruct (fold_left pstep hist (pid, pd)) as [np' pd']. rewrite IH. try (f_equal; lia).
Qed.

(* what RewritePacket does with -pidDelta: the forwarded id *)
Definition forwarded_id (w pid pd : Z) : Z := (pid + w16 (- pd)) mod 2 ^ w.
Lemma forwarded_id_spec w pid pd : (w = 7 \/ w = 15) ->
  forwarded_id w pid pd = (pid - pd) mod 2 ^ w.
Proof.
  unfold forwarded_id, w16. intros [-> | ->];
    [change (2 ^ 7) with 128|change (2 ^ 15) with 32768]; lia.
Qed.

(* consecutive forwarded ids: after any in-order history with whole-frame
   drops, a forwarded packet with source id pid carries pid minus the number
   of withheld frames (mod 2^w) *)
Theorem forwarded_id_after w : (w = 7 \/ w = 15) ->
  forall hist np pid, 0 <= np < 2 ^ w -> ids_consecutive w np hist ->
  let '(_, pd') := fold_left pstep hist (np, 0) in
  forwarded_id w pid pd' = (pid - dropped_frames w np hist) mod 2 ^ w.
Proof.
  intros Hw hist np pid Hnp Hc.
  pose proof (pid_delta_counts w Hw hist np 0 Hnp Hc) as H.
  destruct (fold_left pstep hist (np, 0)) as [np' pd'].
  rewrite (forwarded_id_spec w pid pd' Hw).
  destruct Hw as [-> | ->];
    [change (2 ^ 7) with 128 in *|change (2 ^ 15) with 32768 in *]; lia.
Qed.

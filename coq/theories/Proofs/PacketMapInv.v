(* C01: the invariant of the interval list (L1 model) against unwrapped ghost
   numbers, and its preservation by retire, addMapping, Map and Drop. *)
From Coq Require Import ZArith List Bool Lia.
From Coq Require Import ZifyBool.
From Galene Require Import Lib.Word Generated.Consts Model.PacketMap Model.PacketMapL1.
From Galene Require Import Proofs.PacketMapGhost.
Import ListNotations.
Open Scope Z_scope.
Ltac Zify.zify_post_hook ::= Z.div_mod_to_equations.

Record ghost := mkGh { gNext : Z; gD : list Z; gGs : list gentry }.

Definition head_ok (Next : Z) (D : list Z) (gs : list gentry) : Prop :=
  match gs with
  | [] => True
  | g0 :: _ => Next - (First g0 + Count g0) = zl D + Delta g0
  end.

Definition Inv (a : l1) (G : ghost) : Prop :=
  l_started a = true /\
  l_next a = w16 (gNext G) /\
  l_delta a = w16 (- zl (gD G)) /\
  NoDup (gD G) /\
  (forall d, In d (gD G) -> d < gNext G) /\
  l_view a = map erase (gGs G) /\
  chainP First (gNext G) (gGs G) /\
  Forall (gok (gD G)) (gGs G) /\
  head_ok (gNext G) (gD G) (gGs G) /\
  (l_nil a = true <-> gGs G = []) /\
  (gGs G = [] -> gD G = []).

(* after retire the newest interval starts less than retireAge before next *)
Definition young (G : ghost) : Prop :=
  match gGs G with [] => True | g0 :: _ => gNext G - First g0 < 16384 end.

Ltac inv_split :=
  split; [|split; [|split; [|split; [|split; [|split; [|split; [|split; [|split; [|split]]]]]]]]].

(* ---- small arithmetic facts ---- *)
Lemma w16_sub_both a b : w16 (w16 a - w16 b) = w16 (a - b).
Proof. unfold w16. lia. Qed.
Lemma w16_add_both a b : w16 (w16 a + w16 b) = w16 (a + b).
Proof. unfold w16. lia. Qed.
Lemma w16_exact x : 0 <= x < 65536 -> w16 x = x.
Proof. unfold w16. lia. Qed.
Lemma w16_inj_near a b : -65536 < a - b < 65536 -> w16 a = w16 b -> a = b.
Proof. unfold w16. lia. Qed.

Lemma chain_head_range Next g gs : chainP First Next (g :: gs) ->
  0 <= Count g /\ First g + Count g <= Next /\ 0 <= Next - First g <= Bnd.
Proof. cbn [chainP]. intros (H1 & H2 & H3 & _). lia. Qed.

Lemma map_removelast {A B} (f : A -> B) l : map f (removelast l) = removelast (map f l).
Proof.
  induction l as [|x l IH]; [reflexivity|].
  destruct l as [|y l]; [reflexivity|].
  change (removelast (x :: y :: l)) with (x :: removelast (y :: l)).
  cbn [map]. change (removelast (f x :: f y :: map f l)) with (f x :: removelast (f y :: map f l)).
  f_equal. exact IH.
Qed.
Lemma chainP_removelast pos : forall gs hi, chainP pos hi gs -> chainP pos hi (removelast gs).
Proof.
  induction gs as [|g gs IH]; intros hi H; [exact I|].
  destruct gs as [|g2 gs]; [exact I|].
  change (removelast (g :: g2 :: gs)) with (g :: removelast (g2 :: gs)).
  cbn [chainP] in H |- *. destruct H as (H1 & H2 & H3 & H4).
  split; [exact H1|]. split; [exact H2|]. split; [exact H3|]. apply IH. exact H4.
Qed.
Lemma Forall_removelast {A} (P : A -> Prop) l : Forall P l -> Forall P (removelast l).
Proof.
  induction 1 as [|x l Hx Hl IH]; [constructor|].
  destruct l as [|y l]; [constructor|].
  change (removelast (x :: y :: l)) with (x :: removelast (y :: l)). constructor; assumption.
Qed.

(* every interval ends at or before the bound of the chain *)
Lemma chain_ends pos gs hi g : chainP pos hi gs -> In g gs -> pos g + Count g <= hi /\ 0 <= Count g.
Proof. apply chainP_below. Qed.

(* ---- retire ---- *)
Lemma retire_Inv a G : Inv a G ->
  exists gs', Inv (l1_retire a) (mkGh (gNext G) (gD G) gs') /\
              young (mkGh (gNext G) (gD G) gs') /\
              (gGs G = [] <-> gs' = []).
Proof.
  destruct G as [Next D gs0]. unfold Inv, young. cbn [gNext gD gGs].
  intros (Hst & Hn & Hd & Hnd & Hlt & Hv & Hc & Hg & Hh & Hnil & He).
  unfold l1_retire. rewrite Hv.
  destruct gs0 as [|g0 gs].
  - exists []. cbn [map]. split; [|split; [exact I|tauto]].
    inv_split; auto; tauto.
  - cbn [map]. destruct (chain_head_range _ _ _ Hc) as (Hc0 & Hend & Hrange).
    unfold Bnd in Hrange.
    assert (Hdist : w16 (l_next a - e_first (erase g0)) = Next - First g0).
    { rewrite Hn. cbn [erase e_first]. rewrite w16_sub_both. apply w16_exact. lia. }
    rewrite Hdist. rewrite retireAge_val.
    destruct (Next - First g0 <? 16384) eqn:Eage.
    + exists (g0 :: gs). split; [|split; [lia|tauto]].
      inv_split; auto; tauto.
    + cbn [erase e_first e_count e_delta e_pidDelta]. rewrite window_val.
      inversion Hg as [|? ? Hg0 Hgs]; subst.
      destruct Hg0 as (Hno & Hdel).
      cbn [head_ok] in Hh.
      assert (Hfirst : w16 (l_next a - 8192) = w16 (Next - 8192))
        by (rewrite Hn; unfold w16; lia).
      assert (Hendw : w16 (w16 (First g0) + Count g0) = w16 (First g0 + Count g0))
        by (unfold w16; lia).
      rewrite Hfirst, Hendw.
      rewrite (cmp16_nonpos (First g0 + Count g0) (Next - 8192)) by lia.
      destruct (First g0 + Count g0 <=? Next - 8192) eqn:Ecase.
      * (* only withheld packets remain in the window *)
        set (g' := mkG (Next) 0 (- zl (D)) (l_pidDelta a)).
        exists [g']. split; [|split; [cbn [First g']; lia|split; discriminate]].
        unfold Inv; cbn [gNext gD gGs with_view l_started l_next l_delta l_view l_nil].
        split; [exact Hst|]. split; [exact Hn|]. split; [exact Hd|].
        split; [exact Hnd|]. split; [exact Hlt|].
        split; [cbn [map erase g' First Count Delta PidD]; rewrite Hn, Hd; reflexivity|].
        split; [cbn [chainP g' First Count]; unfold Bnd; lia|].
        split.
        { constructor; [|constructor]. split.
          - cbn [g' First Count]. intros d Hin. lia.
          - cbn [g' First Delta]. rewrite (before_all (D) (Next) Hlt). reflexivity. }
        split; [cbn [head_ok g' First Count Delta]; lia|].
        split; [split; discriminate|discriminate].
      * (* keep the part of the newest interval that is inside the window *)
        set (g' := mkG (Next - 8192) (First g0 + Count g0 - (Next - 8192)) (Delta g0) (PidD g0)).
        exists [g']. split; [|split; [cbn [First g']; lia|split; discriminate]].
        unfold Inv; cbn [gNext gD gGs with_view l_started l_next l_delta l_view l_nil].
        split; [exact Hst|]. split; [exact Hn|]. split; [exact Hd|].
        split; [exact Hnd|]. split; [exact Hlt|].
        split.
        { unfold g', erase. cbn [map First Count Delta PidD].
          rewrite ?w16_sub_both.
          rewrite (w16_exact (First g0 + Count g0 - (Next - 8192))) by lia. reflexivity. }
        split; [cbn [chainP g' First Count]; unfold Bnd; lia|].
        split.
        { constructor; [|constructor]. split.
          - cbn [g' First Count]. intros d Hin Hr. apply (Hno d Hin). lia.
          - cbn [g' First Delta]. rewrite Hdel. f_equal.
            symmetry. apply before_gap; [lia|]. intros d Hin Hr. apply (Hno d Hin). lia. }
        split; [cbn [head_ok g' First Count Delta]; lia|].
        split; [split; discriminate|discriminate].
Qed.

(* ---- addMapping followed by the advance of next (in-order branch of Map) ---- *)
Definition advance (a1 : l1) (s p : Z) : l1 :=
  mkL (l_started a1) (w16 (s + 1)) p (l_delta a1) (l_pidDelta a1) (l_nil a1) (l_view a1).

Lemma add_mapping_scalars a s d p :
  l_delta (l1_add_mapping a s d p) = l_delta a /\
  l_pidDelta (l1_add_mapping a s d p) = l_pidDelta a /\
  l_started (l1_add_mapping a s d p) = l_started a /\
  l_next (l1_add_mapping a s d p) = l_next a.
Proof.
  unfold l1_add_mapping. destruct (l_view a) as [|ei rest]; [auto|].
  destruct ((d =? e_delta ei) && (p =? e_pidDelta ei)); [cbn; auto|].
  destruct (zlen (ei :: rest) <? maxEntries); cbn; auto.
Qed.

Lemma add_mapping_Inv a G r p : Inv a G -> young G -> gGs G <> [] ->
  gNext G <= r <= gNext G + 8192 ->
  let a1 := l1_add_mapping a (w16 r) (l_delta a) (l_pidDelta a) in
  exists gs', Inv (advance a1 (w16 r) p) (mkGh (r + 1) (gD G) gs') /\ gs' <> [].
Proof.
  destruct G as [Next D gs0]. unfold Inv, young. cbn [gNext gD gGs].
  intros (Hst & Hn & Hd & Hnd & Hlt & Hv & Hc & Hg & Hh & Hnil & He) Hy Hne Hr.
  destruct gs0 as [|g0 gs]; [congruence|]. clear Hne.
  destruct (chain_head_range _ _ _ Hc) as (Hc0 & Hend & Hrange).
  cbn [chainP] in Hc. destruct Hc as (_ & _ & _ & Hc').
  inversion Hg as [|? ? Hg0 Hgs]; subst. destruct Hg0 as (Hno & Hdel).
  cbn [head_ok] in Hh.
  assert (Hnext' : w16 (w16 r + 1) = w16 (r + 1)) by (unfold w16; lia).
  assert (Hlt' : forall d, In d D -> d < r + 1) by (intros d Hin; specialize (Hlt d Hin); lia).
  unfold l1_add_mapping. rewrite Hv. cbn [map].
  cbn [erase e_delta e_pidDelta e_first e_count].
  destruct ((l_delta a =? w16 (Delta g0)) && (l_pidDelta a =? PidD g0)) eqn:Esame.
  - (* same deltas: the newest interval is extended up to r *)
    assert (Hdd : - zl D = Delta g0).
    { apply w16_inj_near; [lia|]. rewrite <- Hd. lia. }
    set (g0' := mkG (First g0) (r - First g0 + 1) (Delta g0) (PidD g0)).
    exists (g0' :: gs). split; [|discriminate].
    unfold advance. cbn [with_view l_started l_next l_delta l_pidDelta l_nil l_view].
    inv_split.
    + exact Hst.
    + exact Hnext'.
    + exact Hd.
    + exact Hnd.
    + exact Hlt'.
    + unfold g0', erase. cbn [map First Count Delta PidD]. f_equal. f_equal.
      assert (E : w16 (w16 r - w16 (First g0) + 1) = r - First g0 + 1)
        by (unfold w16; lia).
      rewrite E. reflexivity.
    + unfold g0'. cbn [chainP First Count]. unfold Bnd. split; [lia|]. split; [lia|]. split; [lia|exact Hc'].
    + constructor; [|exact Hgs]. unfold g0'. split; cbn [First Count Delta].
      * intros d Hin Hd'. specialize (Hlt d Hin). apply (Hno d Hin). lia.
      * exact Hdel.
    + unfold g0'. cbn [head_ok First Count Delta]. lia.
    + split; discriminate.
    + discriminate.
  - (* a new interval *)
    set (dd := zl D + Delta g0).
    assert (Hdd : w16 (w16 (Delta g0) - l_delta a) = dd).
    { rewrite Hd. unfold dd. rewrite w16_sub_both.
      replace (Delta g0 - - zl D) with (zl D + Delta g0) by lia.
      apply w16_exact. unfold Bnd in *. lia. }
    rewrite Hdd. rewrite window_val.
    set (F' := if dd <? 8192 then Next else r).
    assert (HF' : Next <= F' <= r) by (unfold F'; destruct (dd <? 8192); lia).
    assert (Hf : (if dd <? 8192
                  then if cmp16 (w16 (w16 (First g0) + Count g0 + dd)) (w16 r) <? 0
                       then w16 (w16 (First g0) + Count g0 + dd) else w16 r
                  else w16 r) = w16 F').
    { unfold F'. destruct (dd <? 8192) eqn:Ed; [|reflexivity].
      assert (E1 : w16 (w16 (First g0) + Count g0 + dd) = w16 Next)
        by (unfold dd; unfold w16; lia).
      rewrite E1. rewrite (cmp16_neg Next r) by lia.
      destruct (Next <? r) eqn:E2; [reflexivity|]. f_equal. lia. }
    rewrite Hf. clear Hf. clearbody F'.
    set (g' := mkG F' (r - F' + 1) (- zl D) (l_pidDelta a)).
    assert (Herase : mkE (w16 F') (w16 (w16 r - w16 F' + 1)) (l_delta a) (l_pidDelta a) = erase g').
    { unfold g', erase. cbn [First Count Delta PidD]. rewrite Hd. f_equal.
      unfold w16. lia. }
    rewrite Herase.
    assert (Hgok' : gok D g').
    { unfold g'. split; cbn [First Count Delta].
      - intros d Hin Hd'. specialize (Hlt d Hin). lia.
      - rewrite (before_all D F'); [reflexivity|]. intros d Hin. specialize (Hlt d Hin). lia. }
    assert (Hchain' : forall tl, chainP First (First g0) tl ->
              chainP First (r + 1) (g' :: g0 :: tl)).
    { intros tl Htl. unfold g'. cbn [chainP First Count]. unfold Bnd.
      split; [lia|]. split; [lia|]. split; [lia|].
      split; [lia|]. split; [lia|]. split; [lia|exact Htl]. }
    destruct (zlen (erase g0 :: map erase gs) <? maxEntries).
    + exists (g' :: g0 :: gs). split; [|discriminate].
      unfold advance. cbn [with_view l_started l_next l_delta l_pidDelta l_nil l_view].
      inv_split.
      * exact Hst.
      * exact Hnext'.
      * exact Hd.
      * exact Hnd.
      * exact Hlt'.
      * reflexivity.
      * apply Hchain'. exact Hc'.
      * constructor; [exact Hgok'|]. constructor; [split; assumption|exact Hgs].
      * unfold g'. cbn [head_ok First Count Delta]. lia.
      * split; discriminate.
      * discriminate.
    + exists (g' :: removelast (g0 :: gs)). split; [|discriminate].
      unfold advance. cbn [with_view l_started l_next l_delta l_pidDelta l_nil l_view].
      change (erase g0 :: map erase gs) with (map erase (g0 :: gs)).
      rewrite <- map_removelast.
      inv_split.
      * exact Hst.
      * exact Hnext'.
      * exact Hd.
      * exact Hnd.
      * exact Hlt'.
      * reflexivity.
      * assert (Hrm : chainP First (r + 1) (g' :: g0 :: gs)) by (apply Hchain'; exact Hc').
        change (g' :: removelast (g0 :: gs)) with (removelast (g' :: g0 :: gs)).
        apply chainP_removelast. exact Hrm.
      * constructor; [exact Hgok'|]. apply Forall_removelast.
        constructor; [split; assumption|exact Hgs].
      * unfold g'. cbn [head_ok First Count Delta]. lia.
      * split; discriminate.
      * discriminate.
Qed.

(* ---- late packets: direct ---- *)
Lemma direct_Inv a G r : Inv a G -> gNext G - 8192 <= r < gNext G ->
  match l1_direct a (w16 r) with
  | Some (v, _) => ~ In r (gD G) /\ v = w16 (out (gD G) r)
  | None => True
  end /\
  (In r (gD G) -> l1_direct a (w16 r) = None).
Proof.
  destruct G as [Next D gs0]. unfold Inv. cbn [gNext gD gGs].
  intros (Hst & Hn & Hd & Hnd & Hlt & Hv & Hc & Hg & Hh & Hnil & He) Hr.
  unfold l1_direct. rewrite Hv.
  pose proof (lwalk_sound First e_first (fun e => w16 (w16 r + e_delta e))
                (fun g => eq_refl) gs0 Next r Hc ltac:(lia) ltac:(lia)) as Hw.
  destruct (lwalk (map erase gs0) (w16 r) e_first (fun e => w16 (w16 r + e_delta e))) as [[v p]|].
  - destruct Hw as (g & Hin & Hcov & Hv' & _).
    rewrite Forall_forall in Hg. destruct (gok_out D g r (Hg g Hin) Hcov) as (Hnot & Hout).
    split.
    + split; [exact Hnot|]. rewrite Hv'. cbn [erase e_delta]. rewrite Hout. unfold w16. lia.
    + intros Hin'. contradiction.
  - split; [exact I|reflexivity].
Qed.

Lemma NoDup_snoc {A} (l : list A) x : NoDup l -> ~ In x l -> NoDup (l ++ [x]).
Proof.
  induction 1 as [|y l Hy Hl IH]; cbn [app]; intros Hx.
  - constructor; [intros []|constructor].
  - constructor.
    + rewrite in_app_iff. cbn [In]. intros [H|[H|[]]]; [contradiction|]. apply Hx. left. symmetry. exact H.
    + apply IH. intros H. apply Hx. right. exact H.
Qed.

(* ---- Drop ---- *)
Lemma drop_Inv a G p : Inv a G ->
  let s := w16 (gNext G) in
  fst (l1_drop a s p) = true /\
  exists gs', Inv (snd (l1_drop a s p)) (mkGh (gNext G + 1) (gD G ++ [gNext G]) gs').
Proof.
  destruct G as [Next D gs0]. cbn [gNext gD gGs]. intros HI.
  assert (HI0 := HI). unfold Inv in HI. cbn [gNext gD gGs] in HI.
  destruct HI as (Hst & Hn & Hd & Hnd & Hlt & Hv & Hc & Hg & Hh & Hnil & He).
  unfold l1_drop. rewrite Hst, Hn. cbn [negb orb].
  replace (w16 Next =? w16 Next) with true by lia. cbn [negb fst snd].
  split; [reflexivity|].
  (* the state on which retire runs *)
  set (a' := match l_view a with
             | [] => with_view a [mkE (w16 (w16 Next - window)) window 0 0]
             | _ :: _ => a end).
  assert (HI' : exists gs1, Inv a' (mkGh Next D gs1) /\ gs1 <> []).
  { unfold a'. rewrite Hv. destruct gs0 as [|g0 gs].
    - cbn [map]. rewrite window_val.
      set (g := mkG (Next - 8192) 8192 0 0).
      exists [g]. split; [|discriminate].
      assert (HD : D = []) by (apply He; reflexivity). subst D.
      unfold Inv. cbn [gNext gD gGs with_view l_started l_next l_delta l_view l_nil].
      inv_split.
      + exact Hst.
      + exact Hn.
      + exact Hd.
      + constructor.
      + intros d [].
      + unfold g, erase. cbn [map First Count Delta PidD]. f_equal. f_equal; unfold w16; lia.
      + unfold g. cbn [chainP First Count]. unfold Bnd. lia.
      + constructor; [|constructor]. unfold g. split; cbn [First Count Delta].
        * intros d [].
        * reflexivity.
      + unfold g. cbn [head_ok First Count Delta]. change (zl []) with 0. lia.
      + split; discriminate.
      + discriminate.
    - exists (g0 :: gs). split; [exact HI0|discriminate]. }
  destruct HI' as (gs1 & HI1 & Hne1).
  destruct (retire_Inv a' _ HI1) as (gs2 & HI2 & Hy2 & Hiff).
  cbn [gNext gD gGs] in HI2, Hy2, Hiff.
  assert (Hne2 : gs2 <> []) by (intros E; apply Hne1; apply Hiff; exact E).
  exists gs2.
  set (a0 := l1_retire a') in *.
  unfold Inv in HI2. cbn [gNext gD gGs] in HI2.
  destruct HI2 as (Hst2 & Hn2 & Hd2 & Hnd2 & Hlt2 & Hv2 & Hc2 & Hg2 & Hh2 & Hnil2 & He2).
  unfold young in Hy2. cbn [gGs gNext] in Hy2.
  destruct gs2 as [|g0 gs]; [congruence|].
  destruct (chain_head_range _ _ _ Hc2) as (Hc0 & Hend & Hrange).
  unfold Inv. cbn [gNext gD gGs l_started l_next l_delta l_view l_nil].
  assert (Hzl : zl (D ++ [Next]) = zl D + 1) by (unfold zl; rewrite app_length; cbn [length]; lia).
  inv_split.
  - exact Hst2.
  - unfold w16. lia.
  - rewrite Hd2, Hzl. unfold w16. lia.
  - apply NoDup_snoc; [exact Hnd2|]. intros Hx. specialize (Hlt2 Next Hx). lia.
  - intros d Hin. apply in_app_or in Hin. destruct Hin as [Hin|[<-|[]]]; [specialize (Hlt2 d Hin)|]; lia.
  - exact Hv2.
  - cbn [chainP] in Hc2 |- *. unfold Bnd in *. destruct Hc2 as (H1 & H2 & H3 & H4).
    split; [exact H1|]. split; [lia|]. split; [lia|exact H4].
  - (* no interval contains the new withheld number, and none starts after it *)
    rewrite Forall_forall in Hg2 |- *. intros g Hin. destruct (Hg2 g Hin) as (Hno & Hdel).
    destruct (chain_ends First _ _ g Hc2 Hin) as (Hge & Hcg).
    split.
    + intros d Hd' Hr'. apply in_app_or in Hd'. destruct Hd' as [Hd'|[<-|[]]].
      * apply (Hno d Hd' Hr').
      * lia.
    + rewrite before_app. replace (Next <? First g) with false by lia. lia.
  - cbn [head_ok] in Hh2 |- *. lia.
  - exact Hnil2.
  - intros E. congruence.
Qed.

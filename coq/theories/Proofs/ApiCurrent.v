(* C17: credentials are checked against the CURRENT stored description.
   After a password change through the API only the new password
   authenticates the user; after a change of a user's definition only the new
   permissions count.  (The model has no cache: the driver's `loaded` stream
   ties this to the code for groups that are loaded in memory.) *)
From Coq Require Import List String Bool ZArith.
From Galene Require Import Model.Api Proofs.ApiAuth Proofs.ApiPreserve.
Import ListNotations.
Open Scope string_scope.

Section WithHash.
Variable H : string -> string -> string.

Lemma get_description_after_write : forall e g d',
  g <> "" ->
  get_description (set_groups e (assoc_set (e_groups e) (clean_name g) d')) g = Some (d', false).
Proof.
  intros e g d' Hg. unfold get_description. cbn [get_desc_loop].
  rewrite (eqb_false_of_neq _ _ Hg). cbn [set_groups e_groups].
  rewrite assoc_get_set, String.eqb_refl. reflexivity.
Qed.

(* the permission lookup after SetUserPassword: the new password decides *)
Lemma password_permission_after_set : forall d u pw d' p,
  set_password d u false pw = Some d' ->
  get_password_permission H d' u p =
  match pw_match H pw p with
  | Some true => option_map u_perms (assoc_get (d_users d) u)
  | _ => None
  end.
Proof.
  intros d u pw d' p Hs. unfold set_password, find_user in Hs.
  destruct (assoc_get (d_users d) u) as [o|] eqn:Eo; [|discriminate].
  inversion Hs; subst d'; clear Hs.
  unfold get_password_permission, put_user. cbn [d_users d_wildcard].
  rewrite assoc_get_set, String.eqb_refl. cbn [u_password u_perms option_map].
  destruct (pw_match H pw p) as [[|]|]; reflexivity.
Qed.

(* a revoked password no longer works: after an accepted password change of
   user u of group g, Basic credentials of u (not a server administrator)
   with a password that the NEW stored password does not match are refused *)
Lemma revoked_password : forall e g u pw p d d',
  g <> "" -> e_writable e = true -> e_store_ok e = true ->
  file_lookup e g = Some d -> set_password d u false pw = Some d' ->
  let e' := fst (do_set_password e g u false pw) in
  global_admin_match H e' u p = Some false ->
  pw_match H pw p <> Some true ->
  is_admin H e' g (CBasic u p) = false.
Proof.
  intros e g u pw p d d' Hg Hw Hso Hf Hs e' Hm Hp. subst e'.
  unfold do_set_password in *. rewrite Hf, Hs in *. unfold rewrite_file in *. rewrite Hw, Hso in *.
  cbn [fst] in *.
  rewrite (cred_basic_group H _ g u p Hg Hm), (get_description_after_write e g d' Hg).
  rewrite (password_permission_after_set d u pw d' p Hs).
  destruct (pw_match H pw p) as [[|]|]; try reflexivity. contradiction Hp. reflexivity.
Qed.

(* revoked permissions no longer work: after an accepted PUT of the user's
   definition without "admin", the user is refused whatever password *)
Lemma revoked_permission : forall e g u nu p d d',
  g <> "" -> e_writable e = true -> e_store_ok e = true ->
  file_lookup e g = Some d -> update_user d u false nu = Some d' ->
  mem "admin" (perm_list (Some d') (u_perms nu)) = false ->
  let e' := set_groups e (assoc_set (e_groups e) (clean_name g) d') in
  global_admin_match H e' u p = Some false ->
  is_admin H e' g (CBasic u p) = false.
Proof.
  intros e g u nu p d d' Hg Hw Hso Hf Hu Hperm e' Hm. subst e'.
  apply (cred_ordinary_user H _ g u p d' false
           {| u_password := match find_user d u false with Some o => u_password o | None => empty_password end;
              u_perms := u_perms nu |}); auto.
  - apply get_description_after_write. exact Hg.
  - unfold update_user in Hu.
    destruct (negb (password_is_empty (u_password nu))); [discriminate|].
    inversion Hu; subst d'. unfold put_user. cbn [d_users].
    rewrite assoc_get_set, String.eqb_refl. reflexivity.
Qed.

End WithHash.

(* C12 / C02: codecs.RewritePacket never reads or writes out of bounds, never
   changes the length, and touches only byte 1's top bit, bytes 2-3 and the
   VP8 picture id. *)
From Coq Require Import ZArith List Bool Lia.
From Coq Require Import ZifyBool.
From Galene Require Import Lib.Word Model.Rewrite.
Import ListNotations.
Open Scope Z_scope.
Ltac Zify.zify_post_hook ::= Z.div_mod_to_equations.

Lemma upd_length l n v : length (upd l n v) = length l.
Proof. revert n; induction l as [|x l IH]; intros [|n]; cbn; auto. Qed.

Lemma rd_some l i : 0 <= i < blen l -> exists v, rd l i = Some v.
Proof.
  intros H. unfold rd. replace ((0 <=? i) && (i <? blen l)) with true by lia.
  destruct (nth_error l (Z.to_nat i)) eqn:E; [eauto|].
  apply nth_error_None in E. unfold blen in H. lia.
Qed.
Lemma rd_range l i v : rd l i = Some v -> 0 <= i < blen l.
Proof. unfold rd. destruct ((0 <=? i) && (i <? blen l)) eqn:E; [lia|discriminate]. Qed.
Lemma wr_some l i v : 0 <= i < blen l -> wr l i v = Some (upd l (Z.to_nat i) v).
Proof. intros H. unfold wr. replace ((0 <=? i) && (i <? blen l)) with true by lia. reflexivity. Qed.
Lemma wr_blen l i v l' : wr l i v = Some l' -> blen l' = blen l.
Proof.
  unfold wr. destruct (_ && _); [|discriminate]. intros H; inversion H.
  unfold blen. rewrite upd_length. reflexivity.
Qed.

(* what a write changes *)
Lemma nth_upd_other l n v j d : j <> n -> nth j (upd l n v) d = nth j l d.
Proof.
  revert n j. induction l as [|x l IH]; intros n j Hne.
  - destruct n; reflexivity.
  - destruct n; destruct j; cbn [upd nth]; try reflexivity; [congruence|].
    apply IH. congruence.
Qed.
Lemma wr_other l i v l' j d : wr l i v = Some l' -> Z.of_nat j <> i -> nth j l' d = nth j l d.
Proof.
  unfold wr. destruct (_ && _) eqn:E; [|discriminate]. intros H Hj; inversion H; subst.
  apply nth_upd_other. lia.
Qed.

(* ---- the set of bytes rewrite may touch ---- *)
(* outcome of a rewrite relative to the input: same length, and equal outside
   the listed positions *)
Definition same_except (pos : list Z) (a b : list Z) : Prop :=
  length a = length b /\
  forall j d, ~ In (Z.of_nat j) pos -> nth j b d = nth j a d.

Lemma same_except_refl pos a : same_except pos a a.
Proof. split; auto. Qed.
Lemma same_except_wr pos a b i v b' : same_except pos a b -> wr b i v = Some b' ->
  same_except (i :: pos) a b'.
Proof.
  intros (Hl & Hs) Hw. split.
  - pose proof (wr_blen _ _ _ _ Hw) as Hb. unfold blen in Hb. lia.
  - intros j d Hn. rewrite (wr_other _ _ _ _ j d Hw); [|intros E; apply Hn; left; auto].
    apply Hs. intros Hin. apply Hn. right. exact Hin.
Qed.
Lemma same_except_weaken pos pos' a b : (forall x, In x pos -> In x pos') ->
  same_except pos a b -> same_except pos' a b.
Proof. intros Hi (Hl & Hs). split; [exact Hl|]. intros j d Hn. apply Hs. auto. Qed.

(* ---- VP8 part ---- *)
Lemma rewrite_vp8_spec data offset delta : 0 <= offset < blen data ->
  match rewrite_vp8 data offset delta with
  | RPanic => False
  | RErr => True
  | ROk d => same_except [offset + 3; offset + 2] data d
  end.
Proof.
  intros Ho. unfold rewrite_vp8, bind_rd, bind_wr.
  destruct (rd_some data offset Ho) as (b0 & ->).
  destruct (negb (hibit b0)); [apply same_except_refl|].
  destruct (blen data <=? offset + 1) eqn:E1; [exact I|].
  destruct (rd_some data (offset + 1) ltac:(lia)) as (b1 & ->).
  destruct (negb (hibit b1)); [apply same_except_refl|].
  destruct (blen data <=? offset + 1 + 1) eqn:E2; [exact I|].
  destruct (rd_some data (offset + 1 + 1) ltac:(lia)) as (b2 & ->).
  destruct (hibit b2).
  - destruct (blen data <=? offset + 1 + 1 + 1) eqn:E3; [exact I|].
    destruct (rd_some data (offset + 1 + 1 + 1) ltac:(lia)) as (b3 & ->).
    set (v1 := 128 + _). set (v2 := _ mod 256).
    rewrite (wr_some data (offset + 1 + 1) v1) by lia.
    assert (Hb : blen (upd data (Z.to_nat (offset + 1 + 1)) v1) = blen data)
      by (unfold blen; rewrite upd_length; reflexivity).
    rewrite (wr_some _ (offset + 1 + 1 + 1) v2) by lia.
    replace (offset + 3) with (offset + 1 + 1 + 1) by lia.
    replace (offset + 2) with (offset + 1 + 1) by lia.
    apply (same_except_wr [offset + 1 + 1] data (upd data (Z.to_nat (offset + 1 + 1)) v1)
             (offset + 1 + 1 + 1) v2); [|apply wr_some; lia].
    apply (same_except_wr [] data data (offset + 1 + 1) v1);
      [apply same_except_refl|apply wr_some; lia].
  - rewrite (wr_some data (offset + 1 + 1)) by lia.
    apply (same_except_weaken [offset + 1 + 1]).
    + intros x [<-|[]]. right; left; lia.
    + eapply (same_except_wr [] data data (offset + 1 + 1));
        [apply same_except_refl|apply wr_some; lia].
Qed.

(* ---- the whole function ---- *)
(* position of the VP8 payload descriptor in a packet, as RFC 3550 defines it:
   12 bytes, CC CSRC words, and the header extension if X is set *)
Definition payload_offset (data : list Z) : Z :=
  let b0 := nth 0 data 0 in
  let o := 12 + (b0 mod 16) * 4 in
  if Z.odd (b0 / 16)
  then o + 4 + (nth (Z.to_nat (o + 2)) data 0 * 256 + nth (Z.to_nat (o + 3)) data 0) * 4
  else o.

Lemma rd_nth l i v : rd l i = Some v -> nth (Z.to_nat i) l 0 = v.
Proof.
  unfold rd. destruct (_ && _); [|discriminate]. intros H. apply nth_error_nth. exact H.
Qed.

Theorem rewrite_spec vp8 data sm seqno delta :
  (forall b, In b data -> 0 <= b < 256) ->
  match rewrite vp8 data sm seqno delta with
  | RPanic => False
  | RErr => True
  | ROk d =>
      let po := payload_offset data in
      same_except (if vp8 then [po + 3; po + 2; 3; 2; 1] else [3; 2; 1]) data d
  end.
Proof.
  intros Hbytes. unfold rewrite, bind_rd, bind_wr.
  destruct (blen data <? 12) eqn:E0; [exact I|].
  destruct (rd_some data 1 ltac:(lia)) as (b1 & Hb1). rewrite Hb1.
  set (v1 := if sm && negb (hibit b1) then b1 + 128 else b1).
  rewrite (wr_some data 1 v1) by lia. set (d1 := upd data _ v1).
  assert (L1 : blen d1 = blen data) by (unfold blen, d1; rewrite upd_length; reflexivity).
  rewrite (wr_some d1 2) by lia. set (d2 := upd d1 _ _).
  assert (L2 : blen d2 = blen data) by (unfold blen, d2; rewrite upd_length; exact L1).
  rewrite (wr_some d2 3) by lia. set (d3 := upd d2 _ _).
  assert (L3 : blen d3 = blen data) by (unfold blen, d3; rewrite upd_length; exact L2).
  assert (S3 : same_except [3; 2; 1] data d3).
  { eapply (same_except_wr [2; 1] data d2 3); [|apply wr_some; lia].
    eapply (same_except_wr [1] data d1 2); [|apply wr_some; lia].
    eapply (same_except_wr [] data data 1); [apply same_except_refl|apply wr_some; lia]. }
  assert (Hfin : forall po, same_except [3; 2; 1] data d3 ->
            same_except (if vp8 then [po + 3; po + 2; 3; 2; 1] else [3; 2; 1]) data d3).
  { intros po H. destruct vp8; [|exact H]. eapply same_except_weaken; [|exact H].
    intros x Hx. right; right; exact Hx. }
  destruct (delta =? 0); [apply Hfin; exact S3|].
  destruct (rd_some d3 0 ltac:(lia)) as (b0 & Hb0). rewrite Hb0.
  (* byte 0 is not touched by the three writes *)
  assert (Hb0' : nth 0 data 0 = b0).
  { destruct S3 as (_ & S3). rewrite <- (S3 0%nat 0); [apply (rd_nth d3 0 b0 Hb0)|].
    cbn. intros [H|[H|[H|[]]]]; discriminate. }
  set (o := 12 + b0 mod 16 * 4).
  destruct (blen d3 <=? o) eqn:E1; [exact I|].
  (* the continuation *)
  assert (Hk : forall offset, 0 <= offset < blen d3 ->
            match (if vp8 then rewrite_vp8 d3 offset delta else ROk d3) with
            | RPanic => False | RErr => True
            | ROk d => same_except (if vp8 then [offset + 3; offset + 2; 3; 2; 1] else [3; 2; 1]) data d
            end).
  { intros offset Hoff. destruct vp8; [|exact S3].
    pose proof (rewrite_vp8_spec d3 offset delta Hoff) as Hv.
    destruct (rewrite_vp8 d3 offset delta) as [d| |]; auto.
    destruct S3 as (Sl & Ss). destruct Hv as (Vl & Vs). split; [lia|].
    intros j dflt Hn. rewrite Vs; [apply Ss|].
    - intros Hin. apply Hn. right; right; exact Hin.
    - intros [H|[H|[]]]; apply Hn; [left|right; left]; exact H. }
  unfold payload_offset. rewrite Hb0'. fold o.
  destruct (Z.odd (b0 / 16)).
  - destruct (blen d3 <? o + 4) eqn:E2; [exact I|].
    destruct (rd_some d3 (o + 2) ltac:(unfold o; lia)) as (l1 & Hl1). rewrite Hl1.
    destruct (rd_some d3 (o + 3) ltac:(unfold o; lia)) as (l2 & Hl2). rewrite Hl2.
    (* the two length bytes are not among the bytes written *)
    assert (Hl1' : nth (Z.to_nat (o + 2)) data 0 = l1).
    { destruct S3 as (_ & S3). rewrite <- (S3 (Z.to_nat (o + 2)) 0); [apply (rd_nth d3 _ l1 Hl1)|].
      unfold o. cbn [In]. lia. }
    assert (Hl2' : nth (Z.to_nat (o + 3)) data 0 = l2).
    { destruct S3 as (_ & S3). rewrite <- (S3 (Z.to_nat (o + 3)) 0); [apply (rd_nth d3 _ l2 Hl2)|].
      unfold o. cbn [In]. lia. }
    rewrite Hl1', Hl2'.
    destruct (blen d3 <? o + 4 + (l1 * 256 + l2) * 4 + 4) eqn:E3; [exact I|].
    apply Hk.
    assert (0 <= l1) by (pose proof (rd_range _ _ _ Hl1); assert (Hin : In l1 data);
      [rewrite <- Hl1'; apply nth_In; unfold blen in *; lia|apply Hbytes in Hin; lia]).
    assert (0 <= l2) by (pose proof (rd_range _ _ _ Hl2); assert (Hin : In l2 data);
      [rewrite <- Hl2'; apply nth_In; unfold blen in *; lia|apply Hbytes in Hin; lia]).
    unfold o in *. lia.
  - apply Hk. unfold o in *. lia.
Qed.

Corollary rewrite_safe vp8 data sm seqno delta :
  (forall b, In b data -> 0 <= b < 256) -> rewrite vp8 data sm seqno delta <> RPanic.
Proof.
  intros H E. pose proof (rewrite_spec vp8 data sm seqno delta H) as Hs. rewrite E in Hs. exact Hs.
Qed.

Corollary rewrite_length vp8 data sm seqno delta d :
  (forall b, In b data -> 0 <= b < 256) ->
  rewrite vp8 data sm seqno delta = ROk d -> length d = length data.
Proof.
  intros H E. pose proof (rewrite_spec vp8 data sm seqno delta H) as Hs. rewrite E in Hs.
  destruct Hs as (Hl & _). symmetry. exact Hl.
Qed.

(* ---- values written ---- *)
Lemma nth_upd_same l n v d : (n < length l)%nat -> nth n (upd l n v) d = v.
Proof.
  revert n. induction l as [|x l IH]; intros n H; [cbn in H; lia|].
  destruct n; [reflexivity|]. cbn [upd nth]. apply IH. cbn in H. lia.
Qed.

(* 15-bit picture id: M stays set, the id becomes (id + delta) mod 2^15 *)
Lemma rewrite_vp8_pid15 data o delta b0 b1 b2 b3 :
  rd data o = Some b0 -> hibit b0 = true ->
  rd data (o + 1) = Some b1 -> hibit b1 = true ->
  rd data (o + 2) = Some b2 -> hibit b2 = true ->
  rd data (o + 3) = Some b3 ->
  let pid' := ((b2 mod 128) * 256 + b3 + delta) mod 32768 in
  exists d, rewrite_vp8 data o delta = ROk d /\
    nth (Z.to_nat (o + 2)) d 0 = 128 + pid' / 256 /\
    nth (Z.to_nat (o + 3)) d 0 = pid' mod 256.
Proof.
  intros H0 X H1 I H2 M H3 pid'.
  pose proof (rd_range _ _ _ H0). pose proof (rd_range _ _ _ H3).
  unfold rewrite_vp8, bind_rd, bind_wr. rewrite H0, X. cbn [negb].
  replace (blen data <=? o + 1) with false by lia. rewrite H1, I. cbn [negb].
  replace (o + 1 + 1) with (o + 2) by lia.
  replace (blen data <=? o + 2) with false by lia. rewrite H2, M.
  replace (o + 2 + 1) with (o + 3) by lia.
  replace (blen data <=? o + 3) with false by lia. rewrite H3.
  fold pid'.
  rewrite (wr_some data (o + 2)) by lia.
  assert (Hb : blen (upd data (Z.to_nat (o + 2)) (128 + (pid' / 256) mod 128)) = blen data)
    by (unfold blen; rewrite upd_length; reflexivity).
  rewrite (wr_some _ (o + 3)) by lia.
  eexists. split; [reflexivity|]. split.
  - rewrite nth_upd_other by lia. rewrite nth_upd_same by (unfold blen in *; lia).
    assert (0 <= pid' < 32768) by (unfold pid'; lia). lia.
  - rewrite nth_upd_same; [reflexivity|]. rewrite upd_length. unfold blen in *. lia.
Qed.

(* 7-bit picture id: M stays clear, the id becomes (id + delta) mod 2^7 *)
Lemma rewrite_vp8_pid7 data o delta b0 b1 b2 :
  rd data o = Some b0 -> hibit b0 = true ->
  rd data (o + 1) = Some b1 -> hibit b1 = true ->
  rd data (o + 2) = Some b2 -> hibit b2 = false ->
  exists d, rewrite_vp8 data o delta = ROk d /\
    nth (Z.to_nat (o + 2)) d 0 = (b2 + delta) mod 128.
Proof.
  intros H0 X H1 I H2 M.
  pose proof (rd_range _ _ _ H0). pose proof (rd_range _ _ _ H2).
  unfold rewrite_vp8, bind_rd, bind_wr. rewrite H0, X. cbn [negb].
  replace (blen data <=? o + 1) with false by lia. rewrite H1, I. cbn [negb].
  replace (o + 1 + 1) with (o + 2) by lia.
  replace (blen data <=? o + 2) with false by lia. rewrite H2, M.
  rewrite (wr_some data (o + 2)) by lia.
  eexists. split; [reflexivity|].
  rewrite nth_upd_same by (unfold blen in *; lia). lia.
Qed.

(* without the extension bits nothing is touched *)
Lemma rewrite_vp8_noext data o delta b0 :
  rd data o = Some b0 -> hibit b0 = false -> rewrite_vp8 data o delta = ROk data.
Proof. intros H0 X. unfold rewrite_vp8, bind_rd. rewrite H0, X. reflexivity. Qed.

(* ---- the values of the three header bytes after a successful rewrite ---- *)
Theorem rewrite_values vp8 data sm seqno delta d :
  (forall b, In b data -> 0 <= b < 256) ->
  rewrite vp8 data sm seqno delta = ROk d ->
  nth 1 d 0 = (if sm && negb (hibit (nth 1 data 0)) then nth 1 data 0 + 128 else nth 1 data 0) /\
  nth 2 d 0 = seqno / 256 /\ nth 3 d 0 = seqno mod 256.
Proof.
  intros Hbytes. unfold rewrite, bind_rd, bind_wr.
  destruct (blen data <? 12) eqn:E0; [discriminate|].
  destruct (rd_some data 1 ltac:(lia)) as (b1 & Hb1). rewrite Hb1.
  assert (Hn1 : nth 1 data 0 = b1) by (exact (rd_nth data 1 b1 Hb1)). rewrite Hn1.
  set (v1 := if sm && negb (hibit b1) then b1 + 128 else b1).
  rewrite (wr_some data 1 v1) by lia. set (d1 := upd data _ v1).
  assert (L1 : blen d1 = blen data) by (unfold blen, d1; rewrite upd_length; reflexivity).
  rewrite (wr_some d1 2) by lia. set (d2 := upd d1 _ _).
  assert (L2 : blen d2 = blen data) by (unfold blen, d2; rewrite upd_length; exact L1).
  rewrite (wr_some d2 3) by lia. set (d3 := upd d2 _ _).
  assert (L3 : blen d3 = blen data) by (unfold blen, d3; rewrite upd_length; exact L2).
  assert (P3 : nth 1 d3 0 = v1 /\ nth 2 d3 0 = seqno / 256 /\ nth 3 d3 0 = seqno mod 256).
  { unfold d3, d2, d1. change (Z.to_nat 1) with 1%nat. change (Z.to_nat 2) with 2%nat.
    change (Z.to_nat 3) with 3%nat. unfold blen in *.
    split; [rewrite !nth_upd_other by lia; apply nth_upd_same; lia|].
    split; [rewrite nth_upd_other by lia; apply nth_upd_same; rewrite upd_length; lia|].
    apply nth_upd_same. rewrite !upd_length. lia. }
  destruct (delta =? 0); [intros H; inversion H; subst; exact P3|].
  destruct (rd_some d3 0 ltac:(lia)) as (b0 & Hb0). rewrite Hb0.
  assert (Hb0r : 0 <= b0 < 256).
  { apply Hbytes. rewrite <- (rd_nth d3 0 b0 Hb0). unfold d3, d2, d1.
    change (Z.to_nat 0) with 0%nat. rewrite !nth_upd_other by (cbn; lia).
    apply nth_In. unfold blen in *. lia. }
  set (o := 12 + b0 mod 16 * 4).
  destruct (blen d3 <=? o) eqn:E1; [discriminate|].
  assert (Hk : forall offset, 12 <= offset < blen d3 ->
            (if vp8 then rewrite_vp8 d3 offset delta else ROk d3) = ROk d ->
            nth 1 d 0 = v1 /\ nth 2 d 0 = seqno / 256 /\ nth 3 d 0 = seqno mod 256).
  { intros offset Hoff Hv. destruct vp8; [|inversion Hv; subst; exact P3].
    pose proof (rewrite_vp8_spec d3 offset delta ltac:(lia)) as Hsp. rewrite Hv in Hsp.
    destruct Hsp as (_ & Hsp). destruct P3 as (Q1 & Q2 & Q3).
    rewrite (Hsp 1%nat 0), (Hsp 2%nat 0), (Hsp 3%nat 0); cbn [In]; try lia; auto. }
  destruct (Z.odd (b0 / 16)).
  - destruct (blen d3 <? o + 4) eqn:E2; [discriminate|].
    destruct (rd_some d3 (o + 2) ltac:(unfold o; lia)) as (l1 & Hl1). rewrite Hl1.
    destruct (rd_some d3 (o + 3) ltac:(unfold o; lia)) as (l2 & Hl2). rewrite Hl2.
    destruct (blen d3 <? o + 4 + (l1 * 256 + l2) * 4 + 4) eqn:E3; [discriminate|].
    assert (Hd3 : forall j, (4 <= j)%nat -> nth j d3 0 = nth j data 0).
    { intros j Hj. unfold d3, d2, d1. rewrite !nth_upd_other by lia. reflexivity. }
    assert (0 <= l1).
    { rewrite <- (rd_nth _ _ _ Hl1). rewrite Hd3 by (unfold o; lia).
      assert (Hin : In (nth (Z.to_nat (o + 2)) data 0) data) by (apply nth_In; unfold blen, o in *; lia).
      apply Hbytes in Hin. lia. }
    assert (0 <= l2).
    { rewrite <- (rd_nth _ _ _ Hl2). rewrite Hd3 by (unfold o; lia).
      assert (Hin : In (nth (Z.to_nat (o + 3)) data 0) data) by (apply nth_In; unfold blen, o in *; lia).
      apply Hbytes in Hin. lia. }
    apply Hk. unfold o in *. lia.
  - apply Hk. unfold o in *. lia.
Qed.

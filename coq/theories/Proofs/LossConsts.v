(* C06: what Model/Loss.v was transcribed from.  Generated/LossConsts.v is
   rewritten from /repo on every run (gen/loss.go); the lemmas below compare
   it with the statements and integer literals that Model/Loss.v follows:
     rl_packets / rl_unnacked / rl_delta / read_loop_step   readLoop_decision_src
     rr_stats                                               sendUpRTCP_loss_src
     read_loop_step's Expect, nack_list_to_pairs (240)      sendNACK_src
     buffer_nack                                            getPacket_src
     nackwriter_cutoff / nackwriter_keep / sort_by          nackWriter_src
   and the literals of packetcache's seqnoInvalid, bitmap.set, bitmap.get and
   ToBitmap (Generated/Consts.v) used by Model/Cache.v.  An edit of any of these
   statements in /repo makes this file fail to compile: the theorems of
   Properties/C06.v then no longer speak about the code. *)
From Coq Require Import ZArith List String.
From Galene Require Import Generated.Consts Generated.LossConsts.
Import ListNotations.
Open Scope Z_scope.

Definition readLoop_decision_src_expected : list string := [
  "first, index := track.cache.Store( packet.SequenceNumber, packet.Timestamp, kf, packet.Marker, buf[:bytes], )";
  "_, rate := track.rate.Estimate()";
  "delta := packet.SequenceNumber - first";
  "if (delta & 0x8000) != 0 { delta = 0 }";
  "packets := rate / 50";
  "if packets > 24 { packets = 24 }";
  "if packets < 2 { packets = 2 }";
  "unnacked := uint16(4)";
  "if unnacked > uint16(packets) { unnacked = uint16(packets) }";
  "if uint32(delta) > packets { found, first, bitmap := track.cache.BitmapGet( packet.SequenceNumber - unnacked, ) if found && sendNACK { err := track.sendNACK(first, bitmap) if err != nil { log.Printf(""%v"", err) } } }"
]%string.

Definition readLoop_decision_literals_expected : list Z := [32768; 0; 0; 50; 24; 24; 2; 2; 4].

Definition sendUpRTCP_loss_src_expected : list string := [
  "stats := t.cache.GetStats(true)";
  "var totalLost uint32";
  "if stats.TotalExpected > stats.TotalReceived { totalLost = stats.TotalExpected - stats.TotalReceived }";
  "var fractionLost uint32";
  "if stats.Expected > stats.Received { lost := stats.Expected - stats.Received fractionLost = lost * 256 / stats.Expected if fractionLost >= 255 { fractionLost = 255 } }";
  "FractionLost: uint8(fractionLost)";
  "TotalLost: totalLost";
  "LastSequenceNumber: stats.ESeqno"
]%string.

Definition sendUpRTCP_loss_literals_expected : list Z := [256; 255; 255].

Definition sendNACK_src_expected : list string := [
  "if err == nil { track.cache.Expect(1 + bits.OnesCount16(bitmap)) }";
  "count := len(seqnos)";
  "if count == 0 { return nil }";
  "for len(seqnos) > 0 { if len(nacks) >= 240 { log.Printf(""NACK: packet overflow"") break } var f, b uint16 f, b, seqnos = packetcache.ToBitmap(seqnos) nacks = append(nacks, rtcp.NackPair{f, rtcp.PacketBitmap(b)}) }";
  "if err == nil { track.cache.Expect(count) }"
]%string.

Definition sendNACK_literals_expected : list Z := [1; 0; 0; 240].

Definition getPacket_src_expected : list string := [
  "n := track.cache.Get(seqno, result)";
  "if n > 0 || !nack { return n }";
  "track.mu.Lock()";
  "defer track.mu.Unlock()";
  "doit := len(track.bufferedNACKs) == 0";
  "for _, s := range track.bufferedNACKs { if s == seqno { return 0 } }";
  "track.bufferedNACKs = append(track.bufferedNACKs, seqno)";
  "if doit { go nackWriter(track) }";
  "return 0"
]%string.

Definition nackWriter_src_expected : list string := [
  "nacks := track.bufferedNACKs";
  "if len(nacks) == 0 || !track.hasRtcpFb(""nack"", """") { return }";
  "var cutoff uint16";
  "seqno, found := track.cache.Keyframe()";
  "if found { cutoff = seqno } else { lastSeqno, last := track.cache.Last() if !last { return } cutoff = lastSeqno - 256 }";
  "for i < len(nacks) { if ((nacks[i] - cutoff) & 0x8000) != 0 { nacks = append(nacks[:i], nacks[i+1:]...) continue } l := track.cache.Get(nacks[i], nil) if l > 0 { nacks = append(nacks[:i], nacks[i+1:]...) continue } i++ }";
  "sort.Slice(nacks, func(i, j int) bool { return nacks[i]-cutoff < nacks[j]-cutoff })";
  "if len(nacks) > 0 { track.sendNACKs(nacks) }"
]%string.

Definition nackWriter_literals_expected : list Z := [0; 256; 32768; 0; 1; 0; 1; 0].


Lemma loss_source_ok :
  readLoop_decision_src = readLoop_decision_src_expected /\
  readLoop_decision_literals = readLoop_decision_literals_expected /\
  sendUpRTCP_loss_src = sendUpRTCP_loss_src_expected /\
  sendUpRTCP_loss_literals = sendUpRTCP_loss_literals_expected /\
  sendNACK_src = sendNACK_src_expected /\
  sendNACK_literals = sendNACK_literals_expected /\
  getPacket_src = getPacket_src_expected /\
  nackWriter_src = nackWriter_src_expected /\
  nackWriter_literals = nackWriter_literals_expected.
Proof. repeat split; reflexivity. Qed.

(* the literals the model functions use, by name *)
Lemma loss_literals_ok :
  readLoop_decision_literals = [32768; 0; 0; 50; 24; 24; 2; 2; 4] /\
  sendUpRTCP_loss_literals = [256; 255; 255] /\
  sendNACK_literals = [1; 0; 0; 240] /\
  nackWriter_literals = [0; 256; 32768; 0; 1; 0; 1; 0] /\
  seqnoInvalid_literals = [0; 256] /\
  bitmap_set_literals = [1; 0; 32; 31; 1; 1; 1] /\
  bitmap_get_literals = [0; 0; 17; 17; 0; 0; 0; 1; 0; 1] /\
  toBitmap_literals = [0; 0; 1; 0; 0; 1; 16; 1; 1].
Proof. repeat split; reflexivity. Qed.

(* Tie of the atomic steps of Model/DescStore.v to the code: the translator
   gen/ lists in Generated/Routes.v every function of group/description.go
   that rewrites or removes a group file, with whether groups.mu is taken
   before its first access to the file (its whole read-modify-write is under
   the lock).  The model makes each of them ONE step ([locked_step]); that is
   justified only if every entry of the table says so, and if the functions
   the model knows are the functions of the table. *)
From Coq Require Import List Bool String.
From Galene Require Import Generated.Routes.
Import ListNotations.
Open Scope string_scope.

(* the update functions Model/DescStore.v models as one locked step *)
Definition modelled_updates : list string :=
  ["UpdateDescription"; "DeleteDescription"; "UpdateUser"; "DeleteUser";
   "SetUserPassword"; "SetKeys"].

Definition updates_table_ok : bool :=
  forallb snd update_functions &&
  forallb (fun u => existsb (String.eqb (fst u)) modelled_updates) update_functions &&
  forallb (fun n => existsb (fun u => String.eqb n (fst u)) update_functions) modelled_updates.

Lemma updates_table_ok_true : updates_table_ok = true.
Proof. vm_compute. reflexivity. Qed.

Theorem update_functions_exclusive :
  (forall n l, In (n, l) update_functions -> l = true /\ In n modelled_updates) /\
  (forall n, In n modelled_updates -> In (n, true) update_functions).
Proof.
  pose proof updates_table_ok_true as T. unfold updates_table_ok in T.
  apply andb_true_iff in T. destruct T as [T T3].
  apply andb_true_iff in T. destruct T as [T1 T2].
  rewrite forallb_forall in T1, T2, T3. split.
  - intros n l H. split.
    + exact (T1 (n, l) H).
    + specialize (T2 (n, l) H). cbn [fst] in T2. apply existsb_exists in T2.
      destruct T2 as (m & Hm & E). apply String.eqb_eq in E. subst m. exact Hm.
  - intros n H. specialize (T3 n H). apply existsb_exists in T3.
    destruct T3 as ([m l] & Hm & E). cbn [fst] in E. apply String.eqb_eq in E. subst m.
    rewrite (T1 (n, l) Hm : l = true) in Hm. exact Hm.
Qed.

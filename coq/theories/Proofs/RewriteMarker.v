(* codecs.RewritePacket: the marker argument influences nothing but bit 7 of
   byte 1, and a rewrite with no marker, the same sequence number and delta 0
   is the identity. *)
From Coq Require Import ZArith List Bool Lia.
From Coq Require Import ZifyBool.
From Galene Require Import Lib.Word Model.Rewrite Proofs.RewriteSafe.
Import ListNotations.
Open Scope Z_scope.
Ltac Zify.zify_post_hook ::= Z.div_mod_to_equations.

(* ---- facts about upd ---- *)
Lemma upd_comm l i j a b : i <> j -> upd (upd l i a) j b = upd (upd l j b) i a.
Proof.
  revert i j. induction l as [|h t IH]; intros i j Hne.
  - destruct i, j; reflexivity.
  - destruct i, j; cbn [upd]; try reflexivity; [congruence|].
    f_equal. apply IH. congruence.
Qed.

Lemma upd_upd_same l i a b : upd (upd l i a) i b = upd l i b.
Proof.
  revert i. induction l as [|h t IH]; intros i.
  - destruct i; reflexivity.
  - destruct i; cbn [upd]; [reflexivity|]. f_equal. apply IH.
Qed.

Lemma upd_self l n : upd l n (nth n l 0) = l.
Proof.
  revert n. induction l as [|h t IH]; intros n.
  - destruct n; reflexivity.
  - destruct n; cbn [upd nth]; [reflexivity|]. f_equal. apply IH.
Qed.

Lemma blen_upd l n x : blen (upd l n x) = blen l.
Proof. unfold blen. rewrite upd_length. reflexivity. Qed.

Lemma nth_error_upd_other l n x j : j <> n -> nth_error (upd l n x) j = nth_error l j.
Proof.
  revert n j. induction l as [|h t IH]; intros n j Hne.
  - destruct n; reflexivity.
  - destruct n, j; cbn [upd nth_error]; try reflexivity; [congruence|].
    apply IH. congruence.
Qed.

Lemma rd_upd1 l x i : i <> 1 -> rd (upd l 1 x) i = rd l i.
Proof.
  intros Hi. unfold rd. rewrite blen_upd.
  destruct ((0 <=? i) && (i <? blen l)) eqn:E; [|reflexivity].
  apply nth_error_upd_other. lia.
Qed.

Lemma wr_upd1 l x i v : i <> 1 ->
  wr (upd l 1 x) i v = option_map (fun l' => upd l' 1 x) (wr l i v).
Proof.
  intros Hi. unfold wr. rewrite blen_upd.
  destruct ((0 <=? i) && (i <? blen l)) eqn:E; cbn [option_map]; [|reflexivity].
  f_equal. apply upd_comm. lia.
Qed.

(* ---- rewriting commutes with a write to byte 1 ---- *)
Definition lift1 (x : Z) (r : rres) : rres :=
  match r with ROk l => ROk (upd l 1 x) | RErr => RErr | RPanic => RPanic end.

Lemma rewrite_vp8_lift l x off delta : 2 <= off ->
  rewrite_vp8 (upd l 1 x) off delta = lift1 x (rewrite_vp8 l off delta).
Proof.
  intros Ho. unfold rewrite_vp8, bind_rd, bind_wr.
  rewrite !blen_upd.
  rewrite (rd_upd1 l x off) by lia.
  destruct (rd l off) as [b0|]; [|reflexivity].
  cbv beta iota zeta.
  destruct (negb (hibit b0)); [reflexivity|].
  destruct (blen l <=? off + 1); [reflexivity|].
  rewrite (rd_upd1 l x (off + 1)) by lia.
  destruct (rd l (off + 1)) as [b1|]; [|reflexivity].
  cbv beta iota zeta.
  destruct (negb (hibit b1)); [reflexivity|].
  destruct (blen l <=? off + 1 + 1); [reflexivity|].
  rewrite (rd_upd1 l x (off + 1 + 1)) by lia.
  destruct (rd l (off + 1 + 1)) as [b2|]; [|reflexivity].
  cbv beta iota zeta.
  destruct (hibit b2).
  - destruct (blen l <=? off + 1 + 1 + 1); [reflexivity|].
    rewrite (rd_upd1 l x (off + 1 + 1 + 1)) by lia.
    destruct (rd l (off + 1 + 1 + 1)) as [b3|]; [|reflexivity].
    cbv beta iota zeta.
    rewrite wr_upd1 by lia.
    destruct (wr l (off + 1 + 1) _) as [d1|]; cbn [option_map]; [|reflexivity].
    rewrite wr_upd1 by lia.
    destruct (wr d1 (off + 1 + 1 + 1) _) as [d2|]; reflexivity.
  - rewrite wr_upd1 by lia.
    destruct (wr l (off + 1 + 1) _) as [d1|]; reflexivity.
Qed.

(* what rewrite does once byte 1 has been written *)
Definition rest (vp8 : bool) (d1 : list Z) (seqno delta : Z) : rres :=
  bind_wr d1 2 (seqno / 256) (fun d2 =>
  bind_wr d2 3 (seqno mod 256) (fun d3 =>
  if delta =? 0 then ROk d3 else
  bind_rd d3 0 (fun b0 =>
  let offset := 12 + (b0 mod 16) * 4 in
  if blen d3 <=? offset then RErr else
  let k (offset : Z) : rres :=
    if vp8 then rewrite_vp8 d3 offset delta else ROk d3 in
  if Z.odd (b0 / 16) then
    if blen d3 <? offset + 4 then RErr else
    bind_rd d3 (offset + 2) (fun l1 =>
    bind_rd d3 (offset + 3) (fun l2 =>
    let length := l1 * 256 + l2 in
    let offset := offset + 4 + length * 4 in
    if blen d3 <? offset + 4 then RErr else k offset))
  else k offset))).

Lemma rewrite_unfold vp8 data sm s delta :
  rewrite vp8 data sm s delta =
  if blen data <? 12 then RErr else
  bind_rd data 1 (fun b1 =>
  bind_wr data 1 (if sm && negb (hibit b1) then b1 + 128 else b1) (fun d1 =>
  rest vp8 d1 s delta)).
Proof. reflexivity. Qed.

Lemma rest_lift vp8 l x s delta :
  (forall j, 0 <= nth j l 0) ->
  rest vp8 (upd l 1 x) s delta = lift1 x (rest vp8 l s delta).
Proof.
  intros Hpos. unfold rest, bind_wr, bind_rd.
  rewrite wr_upd1 by lia.
  destruct (wr l 2 (s / 256)) as [d2|] eqn:W2; cbn [option_map]; [|reflexivity].
  cbv beta iota zeta.
  rewrite wr_upd1 by lia.
  destruct (wr d2 3 (s mod 256)) as [d3|] eqn:W3; cbn [option_map]; [|reflexivity].
  cbv beta iota zeta.
  destruct (delta =? 0); [reflexivity|].
  rewrite !blen_upd. rewrite (rd_upd1 d3 x 0) by lia.
  destruct (rd d3 0) as [b0|]; [|reflexivity].
  cbv beta iota zeta.
  set (o := 12 + b0 mod 16 * 4). assert (Ho : 12 <= o) by (unfold o; lia).
  destruct (blen d3 <=? o); [reflexivity|].
  assert (Hk : forall off, 2 <= off ->
            (if vp8 then rewrite_vp8 (upd d3 1 x) off delta else ROk (upd d3 1 x)) =
            lift1 x (if vp8 then rewrite_vp8 d3 off delta else ROk d3)).
  { intros off Hoff. destruct vp8; [apply rewrite_vp8_lift; exact Hoff|reflexivity]. }
  destruct (Z.odd (b0 / 16)); [|apply Hk; lia].
  destruct (blen d3 <? o + 4); [reflexivity|].
  rewrite (rd_upd1 d3 x (o + 2)) by lia. rewrite (rd_upd1 d3 x (o + 3)) by lia.
  destruct (rd d3 (o + 2)) as [l1|] eqn:R1; [|reflexivity].
  destruct (rd d3 (o + 3)) as [l2|] eqn:R2; [|reflexivity].
  cbv beta iota zeta.
  assert (H1 : 0 <= l1).
  { rewrite <- (rd_nth _ _ _ R1).
    rewrite (wr_other _ _ _ _ _ 0 W3) by lia. rewrite (wr_other _ _ _ _ _ 0 W2) by lia.
    apply Hpos. }
  assert (H2 : 0 <= l2).
  { rewrite <- (rd_nth _ _ _ R2).
    rewrite (wr_other _ _ _ _ _ 0 W3) by lia. rewrite (wr_other _ _ _ _ _ 0 W2) by lia.
    apply Hpos. }
  destruct (blen d3 <? o + 4 + (l1 * 256 + l2) * 4 + 4); [reflexivity|].
  apply Hk. lia.
Qed.

(* ---- the statements ---- *)
(* d' is d except possibly bit 7 of byte 1 *)
Definition agree_but_marker (d d' : list Z) : Prop :=
  length d' = length d /\
  (forall j, j <> 1%nat -> nth j d' 0 = nth j d 0) /\
  nth 1 d' 0 mod 128 = nth 1 d 0 mod 128.

Lemma agree_but_marker_refl d : agree_but_marker d d.
Proof. split; [reflexivity|]. split; [intros; reflexivity|reflexivity]. Qed.

Lemma bytes_nonneg data : (forall b, In b data -> 0 <= b < 256) -> forall j, 0 <= nth j data 0.
Proof.
  intros Hb j.
  assert (H : (j < length data)%nat \/ (length data <= j)%nat) by lia.
  destruct H as [H|H].
  - pose proof (Hb _ (nth_In data 0 H)). lia.
  - rewrite nth_overflow by exact H. lia.
Qed.

(* the marker argument influences nothing but bit 7 of byte 1 *)
Theorem rewrite_marker_indep vp8 data sm sm' v delta d d' :
  (forall b, In b data -> 0 <= b < 256) ->
  rewrite vp8 data sm v delta = ROk d ->
  rewrite vp8 data sm' v delta = ROk d' ->
  agree_but_marker d d'.
Proof.
  intros Hb H H'. rewrite rewrite_unfold in H, H'.
  destruct (blen data <? 12) eqn:E0; [discriminate|].
  unfold bind_rd, bind_wr in H, H'.
  destruct (rd data 1) as [b1|] eqn:Hb1; [|discriminate].
  cbv beta iota zeta in H, H'.
  rewrite (wr_some data 1) in H, H' by lia.
  change (Z.to_nat 1) with 1%nat in H, H'.
  cbv beta iota zeta in H, H'.
  rewrite rest_lift in H, H' by (apply bytes_nonneg; exact Hb).
  destruct (rest vp8 data v delta) as [l| |]; cbn [lift1] in H, H'; try discriminate.
  inversion H; inversion H'; subst d d'; clear H H'.
  assert (Hr : 0 <= b1 < 256).
  { rewrite <- (rd_nth _ _ _ Hb1). apply Hb. apply nth_In. unfold blen in E0. lia. }
  set (v1 := if sm && negb (hibit b1) then b1 + 128 else b1).
  set (v1' := if sm' && negb (hibit b1) then b1 + 128 else b1).
  assert (Hv : v1' mod 128 = v1 mod 128).
  { unfold v1, v1', hibit. destruct sm, sm', (128 <=? b1) eqn:E; cbn [andb negb]; lia. }
  split; [rewrite !upd_length; reflexivity|]. split.
  - intros j Hj. rewrite !nth_upd_other by exact Hj. reflexivity.
  - assert (Hl : (1 < length l)%nat \/ (length l <= 1)%nat) by lia.
    destruct Hl as [Hl|Hl].
    + rewrite !nth_upd_same by exact Hl. exact Hv.
    + rewrite !nth_overflow by (rewrite upd_length; exact Hl). reflexivity.
Qed.

(* a rewrite that changes nothing: no marker, the number already in bytes 2-3, delta 0 *)
Theorem rewrite_identity vp8 data s :
  (forall b, In b data -> 0 <= b < 256) ->
  12 <= blen data ->
  nth 2 data 0 * 256 + nth 3 data 0 = s ->
  rewrite vp8 data false s 0 = ROk data.
Proof.
  intros Hb Hlen Hs. rewrite rewrite_unfold.
  replace (blen data <? 12) with false by lia.
  unfold bind_rd, bind_wr.
  destruct (rd_some data 1 ltac:(lia)) as (b1 & Hb1). rewrite Hb1.
  cbv beta iota zeta. cbn [andb].
  rewrite (wr_some data 1) by lia. change (Z.to_nat 1) with 1%nat.
  cbv beta iota zeta.
  rewrite <- (rd_nth _ _ _ Hb1). change (Z.to_nat 1) with 1%nat. rewrite upd_self.
  assert (R2 : 0 <= nth 2 data 0 < 256) by (apply Hb, nth_In; unfold blen in Hlen; lia).
  assert (R3 : 0 <= nth 3 data 0 < 256) by (apply Hb, nth_In; unfold blen in Hlen; lia).
  assert (Q2 : s / 256 = nth 2 data 0) by lia.
  assert (Q3 : s mod 256 = nth 3 data 0) by lia.
  unfold rest, bind_wr. rewrite Q2, Q3.
  rewrite (wr_some data 2) by lia. change (Z.to_nat 2) with 2%nat.
  cbv beta iota zeta. rewrite upd_self.
  rewrite (wr_some data 3) by lia. change (Z.to_nat 3) with 3%nat.
  cbv beta iota zeta. rewrite upd_self.
  change (0 =? 0) with true. cbv beta iota. reflexivity.
Qed.

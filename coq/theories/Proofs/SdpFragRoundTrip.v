(* C12, WHIP trickle-ICE bodies, second part: SDPFrag.Marshal, UFragPwd and
   AllCandidates on the fragments SDPFrag.Unmarshal produces.
   - Marshal emits lines without '\n' (so a client cannot smuggle a line into
     the answer of an ICE restart through a value), and the scanner reads back
     exactly the emitted lines when they leave room for the '\r';
   - Unmarshal (Marshal f): the exact result [renorm f]; what survives, what
     does not (session-level candidates, the mid recorded in a candidate, a
     line of 65535 bytes), each with a computed witness;
   - AllCandidates (Unmarshal body) = the values of the "a=candidate:" lines
     the scanner delivers, in the order of the lines. *)
From Coq Require Import ZArith List Bool Lia.
From Galene Require Import Model.SdpFrag Proofs.SdpFragSafe.
Import ListNotations.
Open Scope Z_scope.

(* ------------------------------------------------------------------ *)
(* the literal transcriptions (buffer growing at its end) are the linear ones *)

Definition out (ls : list bytes) : bytes := flat_map (fun l => l ++ crlf) ls.

Lemma out_app : forall a b, out (a ++ b) = out a ++ out b.
Proof. intros. apply flat_map_app. Qed.

Lemma fprintf_out : forall w p v, fprintf w p v = w ++ out [p ++ v].
Proof.
  intros. unfold fprintf, out. cbn [flat_map]. rewrite app_nil_r, <- app_assoc. reflexivity.
Qed.

Lemma fprintf_opt_out : forall w p v, fprintf_opt w p v = w ++ out (opt_line p v).
Proof.
  intros w p [|x v]; cbn [fprintf_opt opt_line].
  - cbn. rewrite app_nil_r. reflexivity.
  - apply fprintf_out.
Qed.

Lemma fold_fprintf_out : forall p cs w,
  fold_left (fun w c => fprintf w p (cd_cand c)) cs w = w ++ out (map (fun c => p ++ cd_cand c) cs).
Proof.
  induction cs as [|c cs IH]; intros w; cbn [fold_left map].
  - cbn. rewrite app_nil_r. reflexivity.
  - rewrite IH, fprintf_out, <- app_assoc, <- out_app. reflexivity.
Qed.

Lemma marshal_md_buf_out : forall w m, marshal_md_buf w m = w ++ out (md_lines m).
Proof.
  intros. unfold marshal_md_buf, md_lines.
  rewrite fold_fprintf_out, !fprintf_opt_out, !fprintf_out, <- !app_assoc, <- !out_app.
  reflexivity.
Qed.

Lemma fold_md_buf_out : forall ms w,
  fold_left marshal_md_buf ms w = w ++ out (flat_map md_lines ms).
Proof.
  induction ms as [|m ms IH]; intros w; cbn [fold_left flat_map].
  - cbn. rewrite app_nil_r. reflexivity.
  - rewrite IH, marshal_md_buf_out, <- app_assoc, <- out_app. reflexivity.
Qed.

Theorem marshal_buf_eq : forall f, marshal_buf f = marshal f.
Proof.
  intros. unfold marshal_buf, marshal, marshal_lines. fold (out (marshal_lines f)).
  rewrite fold_md_buf_out, fold_fprintf_out, !fprintf_opt_out, <- !app_assoc, <- !out_app.
  reflexivity.
Qed.

Lemma fold_cands_app : forall ms cs,
  fold_left (fun cs m => cs ++ md_cands m) ms cs = cs ++ flat_map md_cands ms.
Proof.
  induction ms as [|m ms IH]; intros cs; cbn [fold_left flat_map].
  - rewrite app_nil_r. reflexivity.
  - rewrite IH, <- app_assoc. reflexivity.
Qed.

Theorem all_candidates_loop_eq : forall f, all_candidates_loop f = all_candidates f.
Proof. intros. unfold all_candidates_loop, all_candidates. rewrite fold_cands_app. reflexivity. Qed.

(* ------------------------------------------------------------------ *)
(* (a) the lines Marshal emits *)

Definition no_nl (s : bytes) : Prop := ~ In 10 s.
Definition cand_nl (c : cand) : Prop := no_nl (cd_cand c).
Definition md_nl (m : md) : Prop :=
  no_nl (md_mline m) /\ no_nl (md_mid m) /\ no_nl (md_ufrag m) /\ no_nl (md_pwd m) /\
  Forall cand_nl (md_cands m).
Definition frag_nl (f : frag) : Prop :=
  no_nl (f_ufrag f) /\ no_nl (f_pwd f) /\ Forall cand_nl (f_cands f) /\ Forall md_nl (f_mds f).

Lemma no_nl_app : forall a b, no_nl a -> no_nl b -> no_nl (a ++ b).
Proof. unfold no_nl. intros a b Ha Hb H. apply in_app_or in H. tauto. Qed.

Ltac prefix_nl :=
  let H := fresh in
  intros H; cbn in H;
  repeat (destruct H as [H|H]; [discriminate H|]); exact H.

Lemma p_ufrag_nl : no_nl p_ufrag. Proof. prefix_nl. Qed.
Lemma p_pwd_nl : no_nl p_pwd. Proof. prefix_nl. Qed.
Lemma p_m_nl : no_nl p_m. Proof. prefix_nl. Qed.
Lemma p_mid_nl : no_nl p_mid. Proof. prefix_nl. Qed.
Lemma p_cand_nl : no_nl p_cand. Proof. prefix_nl. Qed.
Lemma p_a_nl : no_nl p_a. Proof. prefix_nl. Qed.

Lemma opt_line_P : forall (P : bytes -> Prop) p v, P (p ++ v) -> Forall P (opt_line p v).
Proof. intros P p [|x v] H; cbn [opt_line]; repeat constructor. exact H. Qed.

Lemma Forall_map_intro : forall {A B} (P : B -> Prop) (Q : A -> Prop) (g : A -> B) l,
  (forall x, Q x -> P (g x)) -> Forall Q l -> Forall P (map g l).
Proof.
  intros A B P Q g l H F. induction F; cbn [map]; constructor; auto.
Qed.

Lemma Forall_flat_map_intro : forall {A B} (P : B -> Prop) (Q : A -> Prop) (g : A -> list B) l,
  (forall x, Q x -> Forall P (g x)) -> Forall Q l -> Forall P (flat_map g l).
Proof.
  intros A B P Q g l H F. induction F; cbn [flat_map]; [constructor|].
  apply Forall_app. split; auto.
Qed.

Lemma md_lines_no_nl : forall m, md_nl m -> Forall no_nl (md_lines m).
Proof.
  intros m (H1 & H2 & H3 & H4 & H5). unfold md_lines.
  constructor; [apply no_nl_app; [apply p_m_nl|exact H1]|].
  constructor; [apply no_nl_app; [apply p_mid_nl|exact H2]|].
  apply Forall_app. split; [apply opt_line_P, no_nl_app; [apply p_ufrag_nl|exact H3]|].
  apply Forall_app. split; [apply opt_line_P, no_nl_app; [apply p_pwd_nl|exact H4]|].
  apply (Forall_map_intro _ cand_nl); [|exact H5].
  intros c Hc. apply no_nl_app; [apply p_cand_nl|exact Hc].
Qed.

Theorem marshal_lines_no_nl : forall f, frag_nl f -> Forall no_nl (marshal_lines f).
Proof.
  intros f (H1 & H2 & H3 & H4). unfold marshal_lines.
  apply Forall_app. split; [apply opt_line_P, no_nl_app; [apply p_ufrag_nl|exact H1]|].
  apply Forall_app. split; [apply opt_line_P, no_nl_app; [apply p_pwd_nl|exact H2]|].
  apply Forall_app. split.
  - apply (Forall_map_intro _ cand_nl); [|exact H3].
    intros c Hc. apply no_nl_app; [apply p_a_nl|exact Hc].
  - apply (Forall_flat_map_intro _ md_nl); [|exact H4]. apply md_lines_no_nl.
Qed.

(* ---- the scanner on the output of Marshal *)

Lemma raw_lines_line : forall l rest cur, no_nl l ->
  raw_lines (l ++ 10 :: rest) cur = frev (rev l ++ cur) :: raw_lines rest [].
Proof.
  induction l as [|x l IH]; intros rest cur H; cbn [app raw_lines rev].
  - rewrite Z.eqb_refl. reflexivity.
  - destruct (x =? 10) eqn:E.
    + apply Z.eqb_eq in E. exfalso. apply H. left. exact E.
    + rewrite IH, <- app_assoc; [reflexivity|]. intros Hin. apply H. right. exact Hin.
Qed.

Lemma raw_lines_out : forall ls, Forall no_nl ls ->
  raw_lines (out ls) [] = map (fun l => l ++ [13]) ls.
Proof.
  induction 1 as [|l ls Hl _ IH]; [reflexivity|].
  unfold out in *. cbn [flat_map map]. unfold crlf at 1.
  rewrite <- app_assoc. change ([13; 10] ++ ?r) with ([13] ++ 10 :: r).
  rewrite app_assoc, raw_lines_line.
  - rewrite app_nil_r, frev_rev, rev_involutive, IH. reflexivity.
  - apply no_nl_app; [exact Hl|]. intros [H|[]]. discriminate H.
Qed.

Lemma zlen_app : forall a b, zlen (a ++ b) = zlen a + zlen b.
Proof. intros. unfold zlen. rewrite app_length. lia. Qed.

Lemma fitting_all : forall ls, Forall (fun l => zlen l < max_token) ls -> fitting ls = ls.
Proof.
  induction 1 as [|l ls Hl _ IH]; cbn [fitting]; [reflexivity|].
  apply Z.ltb_lt in Hl. rewrite Hl, IH. reflexivity.
Qed.

Lemma drop_cr_cr : forall l, drop_cr (l ++ [13]) = l.
Proof.
  intros. unfold drop_cr. rewrite frev_rev, rev_app_distr. cbn [rev app].
  rewrite Z.eqb_refl, frev_rev, rev_involutive. reflexivity.
Qed.

(* a line that Marshal can write and the scanner reads back: no '\n' in it,
   and with the '\r' it still fits the 64 KiB buffer *)
Definition line_rt (l : bytes) : Prop := no_nl l /\ zlen l + 1 < max_token.

Lemma scan_lines_out : forall ls, Forall line_rt ls -> scan_lines (out ls) = ls.
Proof.
  intros ls H. unfold scan_lines.
  rewrite raw_lines_out by (eapply Forall_impl; [|exact H]; intros l [Hl _]; exact Hl).
  rewrite fitting_all.
  - rewrite map_map. rewrite (map_ext _ (fun l => l) drop_cr_cr). apply map_id.
  - apply (Forall_map_intro _ line_rt); [|exact H].
    intros l [_ Hl]. rewrite zlen_app. exact Hl.
Qed.

Theorem scan_marshal : forall f, Forall line_rt (marshal_lines f) ->
  scan_lines (marshal f) = marshal_lines f.
Proof. intros f H. apply scan_lines_out. exact H. Qed.

(* ------------------------------------------------------------------ *)
(* what Unmarshal establishes: no '\n' in any string, and every string is
   short enough for the line it was read from to fit the buffer *)

Definition str_ok (k : Z) (s : bytes) : Prop := no_nl s /\ zlen s + k < max_token.
Definition cand_ok (c : cand) : Prop := str_ok 12 (cd_cand c).
Definition md_ok (m : md) : Prop :=
  str_ok 2 (md_mline m) /\ str_ok 6 (md_mid m) /\ str_ok 12 (md_ufrag m) /\
  str_ok 10 (md_pwd m) /\ Forall cand_ok (md_cands m).
Definition frag_ok (f : frag) : Prop :=
  str_ok 12 (f_ufrag f) /\ str_ok 10 (f_pwd f) /\ Forall cand_ok (f_cands f) /\
  Forall md_ok (f_mds f).

Definition cur_ok (cur : option md) : Prop :=
  match cur with Some m => md_ok m | None => True end.

(* the lines of the scanner (C12_sdpfrag_lines) *)
Definition line_in (l : bytes) : Prop := no_nl l /\ zlen l < max_token.

Lemma strip_prefix_some : forall p l v, strip_prefix p l = Some v -> l = p ++ v.
Proof.
  induction p as [|a p IH]; intros l v H.
  - destruct l; cbn in H; inversion H; reflexivity.
  - destruct l as [|b l]; cbn [strip_prefix] in H; [discriminate|].
    destruct (a =? b) eqn:E; [|discriminate]. apply Z.eqb_eq in E. subst b.
    cbn [app]. f_equal. apply IH. exact H.
Qed.

Lemma strip_ok : forall p l v, line_in l -> strip_prefix p l = Some v -> str_ok (zlen p) v.
Proof.
  intros p l v [H1 H2] H. apply strip_prefix_some in H. subst l. split.
  - intros Hin. apply H1. apply in_or_app. right. exact Hin.
  - rewrite zlen_app in H2. lia.
Qed.

Lemma str_ok_nil : forall k, 0 <= k < max_token -> str_ok k [].
Proof. intros k H. split; [intros []|]. unfold zlen. cbn. lia. Qed.

Ltac step_cases l cur :=
  unfold line_step, line_step_gen;
  destruct (strip_prefix p_ufrag l) eqn:Eu;
  [destruct cur; cbn
  |destruct (strip_prefix p_pwd l) eqn:Ep;
   [destruct cur; cbn
   |destruct (strip_prefix p_m l) eqn:Em;
    [|destruct (strip_prefix p_mid l) eqn:Emid;
      [destruct cur; cbn
      |destruct (strip_prefix p_cand l) eqn:Ec;
       [destruct cur; cbn|]]]]].

Lemma flush_ok : forall f cur, frag_ok f -> cur_ok cur -> frag_ok (flush f cur).
Proof.
  intros f [m|] (H1 & H2 & H3 & H4) Hc; cbn [flush]; [|exact (conj H1 (conj H2 (conj H3 H4)))].
  refine (conj H1 (conj H2 (conj H3 _))). cbn [f_mds].
  apply Forall_app. split; [exact H4|]. constructor; [exact Hc|constructor].
Qed.

Lemma line_step_ok : forall f cur l f' cur',
  line_in l -> frag_ok f -> cur_ok cur ->
  line_step f cur l = SCont f' cur' -> frag_ok f' /\ cur_ok cur'.
Proof.
  intros f cur l f' cur' Hl Hf Hc.
  pose proof Hf as (F1 & F2 & F3 & F4).
  step_cases l cur; intros H; inversion H; subst; clear H.
  - (* ufrag, in a section *)
    destruct Hc as (M1 & M2 & M3 & M4 & M5). split; [exact Hf|].
    exact (conj M1 (conj M2 (conj (strip_ok _ _ _ Hl Eu) (conj M4 M5)))).
  - split; [|exact I].
    exact (conj (strip_ok _ _ _ Hl Eu) (conj F2 (conj F3 F4))).
  - destruct Hc as (M1 & M2 & M3 & M4 & M5). split; [exact Hf|].
    exact (conj M1 (conj M2 (conj M3 (conj (strip_ok _ _ _ Hl Ep) M5)))).
  - split; [|exact I].
    exact (conj F1 (conj (strip_ok _ _ _ Hl Ep) (conj F3 F4))).
  - (* m= *)
    split; [apply flush_ok; assumption|].
    assert (Z : forall k, 0 <= k < max_token -> str_ok k []) by exact str_ok_nil.
    refine (conj (strip_ok _ _ _ Hl Em) (conj (Z 6 _) (conj (Z 12 _) (conj (Z 10 _) (Forall_nil _)))));
      unfold max_token; lia.
  - destruct Hc as (M1 & M2 & M3 & M4 & M5). split; [exact Hf|].
    exact (conj M1 (conj (strip_ok _ _ _ Hl Emid) (conj M3 (conj M4 M5)))).
  - (* candidate, in a section *)
    destruct Hc as (M1 & M2 & M3 & M4 & M5). split; [exact Hf|].
    refine (conj M1 (conj M2 (conj M3 (conj M4 _)))). cbn [md_cands].
    apply Forall_app. split; [exact M5|]. constructor; [|constructor].
    exact (strip_ok _ _ _ Hl Ec).
  - split; [|exact I].
    refine (conj F1 (conj F2 (conj _ F4))). cbn [f_cands].
    apply Forall_app. split; [exact F3|]. constructor; [|constructor].
    exact (strip_ok _ _ _ Hl Ec).
  - split; assumption.
Qed.

Lemma run_lines_ok : forall ls f cur f',
  Forall line_in ls -> frag_ok f -> cur_ok cur ->
  run_lines_gen true f cur ls = ROk f' -> frag_ok f'.
Proof.
  induction ls as [|l ls IH]; intros f cur f' Hls Hf Hc H; cbn [run_lines_gen] in H.
  - inversion H. apply flush_ok; assumption.
  - inversion Hls as [|? ? Hl Hls']; subst.
    destruct (line_step_gen true f cur l) as [f1 c1| |] eqn:E; try discriminate.
    destruct (line_step_ok f cur l f1 c1 Hl Hf Hc E) as [Hf1 Hc1].
    exact (IH f1 c1 f' Hls' Hf1 Hc1 H).
Qed.

Lemma empty_frag_ok : frag_ok empty_frag.
Proof.
  unfold frag_ok, empty_frag. cbn.
  repeat split; try (intros []); try constructor; unfold zlen, max_token; cbn; lia.
Qed.

Theorem unmarshal_frag_ok : forall data f, unmarshal data = ROk f -> frag_ok f.
Proof.
  intros data f H. unfold unmarshal in H.
  apply (run_lines_ok (scan_lines data) empty_frag None f); [|apply empty_frag_ok|exact I|exact H].
  apply Forall_forall. intros l Hl. exact (scan_lines_wf data l Hl).
Qed.

Lemma frag_ok_nl : forall f, frag_ok f -> frag_nl f.
Proof.
  intros f (H1 & H2 & H3 & H4). repeat split; try apply H1; try apply H2.
  - eapply Forall_impl; [|exact H3]. intros c Hc. apply Hc.
  - eapply Forall_impl; [|exact H4]. intros m (M1 & M2 & M3 & M4 & M5).
    repeat split; try apply M1; try apply M2; try apply M3; try apply M4.
    eapply Forall_impl; [|exact M5]. intros c Hc. apply Hc.
Qed.

(* the lines Marshal writes for a parsed fragment are no longer than the
   lines it was parsed from: they fit the buffer, but for the '\r' *)
Lemma md_lines_in : forall m, md_ok m -> Forall line_in (md_lines m).
Proof.
  intros m (H1 & H2 & H3 & H4 & H5). unfold md_lines.
  assert (L : forall p k v, zlen p = k -> no_nl p -> str_ok k v -> line_in (p ++ v)).
  { intros p k v Hp Hn [S1 S2]. split; [apply no_nl_app; assumption|]. rewrite zlen_app. lia. }
  constructor; [apply (L p_m 2 _ eq_refl p_m_nl H1)|].
  constructor; [apply (L p_mid 6 _ eq_refl p_mid_nl H2)|].
  apply Forall_app. split; [apply opt_line_P, (L p_ufrag 12 _ eq_refl p_ufrag_nl H3)|].
  apply Forall_app. split; [apply opt_line_P, (L p_pwd 10 _ eq_refl p_pwd_nl H4)|].
  apply (Forall_map_intro _ cand_ok); [|exact H5].
  intros c Hc. apply (L p_cand 12 _ eq_refl p_cand_nl Hc).
Qed.

Theorem marshal_lines_in : forall f, frag_ok f -> Forall line_in (marshal_lines f).
Proof.
  intros f (H1 & H2 & H3 & H4). unfold marshal_lines.
  assert (L : forall p k v, zlen p <= k -> no_nl p -> str_ok k v -> line_in (p ++ v)).
  { intros p k v Hp Hn [S1 S2]. split; [apply no_nl_app; assumption|]. rewrite zlen_app. lia. }
  apply Forall_app. split; [apply opt_line_P, (L p_ufrag 12 _ (Z.le_refl _) p_ufrag_nl H1)|].
  apply Forall_app. split; [apply opt_line_P, (L p_pwd 10 _ (Z.le_refl _) p_pwd_nl H2)|].
  apply Forall_app. split.
  - apply (Forall_map_intro _ cand_ok); [|exact H3].
    intros c Hc. apply (L p_a 12); [unfold zlen; cbn; lia|apply p_a_nl|exact Hc].
  - apply (Forall_flat_map_intro _ md_ok); [|exact H4]. apply md_lines_in.
Qed.

(* ------------------------------------------------------------------ *)
(* (b) Unmarshal (Marshal f) *)

Fixpoint steps (f : frag) (cur : option md) (ls : list bytes) : sres :=
  match ls with
  | [] => SCont f cur
  | l :: ls' =>
      match line_step f cur l with
      | SCont f' cur' => steps f' cur' ls'
      | r => r
      end
  end.

Lemma run_lines_app : forall a b f cur,
  run_lines_gen true f cur (a ++ b) =
  match steps f cur a with
  | SCont f' c' => run_lines_gen true f' c' b
  | SErr => RErr
  | SPanic => RPanic
  end.
Proof.
  induction a as [|l a IH]; intros b f cur; cbn [app steps run_lines_gen]; [reflexivity|].
  unfold line_step. destruct (line_step_gen true f cur l); [apply IH|reflexivity|reflexivity].
Qed.

Lemma steps_app : forall a b f cur,
  steps f cur (a ++ b) =
  match steps f cur a with
  | SCont f' c' => steps f' c' b
  | r => r
  end.
Proof.
  induction a as [|l a IH]; intros b f cur; cbn [app steps]; [reflexivity|].
  destruct (line_step f cur l); [apply IH|reflexivity|reflexivity].
Qed.

Lemma sp_self : forall p v, strip_prefix p (p ++ v) = Some v.
Proof.
  induction p as [|a p IH]; intros v; cbn [app strip_prefix].
  - destruct v; reflexivity.
  - rewrite Z.eqb_refl. apply IH.
Qed.

Lemma sp_ufrag_pwd : forall v, strip_prefix p_ufrag (p_pwd ++ v) = None. Proof. reflexivity. Qed.
Lemma sp_ufrag_m : forall v, strip_prefix p_ufrag (p_m ++ v) = None. Proof. reflexivity. Qed.
Lemma sp_pwd_m : forall v, strip_prefix p_pwd (p_m ++ v) = None. Proof. reflexivity. Qed.
Lemma sp_ufrag_mid : forall v, strip_prefix p_ufrag (p_mid ++ v) = None. Proof. reflexivity. Qed.
Lemma sp_pwd_mid : forall v, strip_prefix p_pwd (p_mid ++ v) = None. Proof. reflexivity. Qed.
Lemma sp_m_mid : forall v, strip_prefix p_m (p_mid ++ v) = None. Proof. reflexivity. Qed.
Lemma sp_ufrag_cand : forall v, strip_prefix p_ufrag (p_cand ++ v) = None. Proof. reflexivity. Qed.
Lemma sp_pwd_cand : forall v, strip_prefix p_pwd (p_cand ++ v) = None. Proof. reflexivity. Qed.
Lemma sp_m_cand : forall v, strip_prefix p_m (p_cand ++ v) = None. Proof. reflexivity. Qed.
Lemma sp_mid_cand : forall v, strip_prefix p_mid (p_cand ++ v) = None. Proof. reflexivity. Qed.

(* the UsernameFragment pointer of a candidate: nil iff the session ufrag is "" *)
Definition uf_of (u : bytes) : option bytes := match u with [] => None | _ :: _ => Some u end.

Lemma step_ufrag_none : forall f v,
  line_step f None (p_ufrag ++ v) = SCont (mkFrag v (f_pwd f) (f_cands f) (f_mds f)) None.
Proof. intros. unfold line_step, line_step_gen. rewrite sp_self. reflexivity. Qed.

Lemma step_pwd_none : forall f v,
  line_step f None (p_pwd ++ v) = SCont (mkFrag (f_ufrag f) v (f_cands f) (f_mds f)) None.
Proof. intros. unfold line_step, line_step_gen. rewrite sp_ufrag_pwd, sp_self. reflexivity. Qed.

Lemma step_ufrag_some : forall f m v,
  line_step f (Some m) (p_ufrag ++ v) = SCont f (Some (set_ufrag v m)).
Proof. intros. unfold line_step, line_step_gen. rewrite sp_self. reflexivity. Qed.

Lemma step_pwd_some : forall f m v,
  line_step f (Some m) (p_pwd ++ v) = SCont f (Some (set_pwd v m)).
Proof. intros. unfold line_step, line_step_gen. rewrite sp_ufrag_pwd, sp_self. reflexivity. Qed.

Lemma step_m : forall f cur v,
  line_step f cur (p_m ++ v) = SCont (flush f cur) (Some (mkMd v [] [] [] [])).
Proof. intros. unfold line_step, line_step_gen. rewrite sp_ufrag_m, sp_pwd_m, sp_self. reflexivity. Qed.

Lemma step_mid_some : forall f m v,
  line_step f (Some m) (p_mid ++ v) = SCont f (Some (set_mid v m)).
Proof.
  intros. unfold line_step, line_step_gen.
  rewrite sp_ufrag_mid, sp_pwd_mid, sp_m_mid, sp_self. reflexivity.
Qed.

Lemma step_cand_some : forall f m v,
  line_step f (Some m) (p_cand ++ v) =
  SCont f (Some (add_cand (mkCand v (uf_of (f_ufrag f)) (Some (zlen_md f mod 65536)) (Some (md_mid m))) m)).
Proof.
  intros. unfold line_step, line_step_gen.
  rewrite sp_ufrag_cand, sp_pwd_cand, sp_m_cand, sp_mid_cand, sp_self.
  unfold uf_of. destruct (f_ufrag f); reflexivity.
Qed.

(* a line that none of the five tests of the parser matches *)
Definition other_line (l : bytes) : bool :=
  match strip_prefix p_ufrag l, strip_prefix p_pwd l, strip_prefix p_m l,
        strip_prefix p_mid l, strip_prefix p_cand l with
  | None, None, None, None, None => true
  | _, _, _, _, _ => false
  end.

Lemma step_other : forall f cur l, other_line l = true -> line_step f cur l = SCont f cur.
Proof.
  intros f cur l H. unfold other_line in H. unfold line_step, line_step_gen.
  destruct (strip_prefix p_ufrag l); [discriminate|].
  destruct (strip_prefix p_pwd l); [discriminate|].
  destruct (strip_prefix p_m l); [discriminate|].
  destruct (strip_prefix p_mid l); [discriminate|].
  destruct (strip_prefix p_cand l); [discriminate|]. reflexivity.
Qed.

(* a session-level candidate whose line "a=<Candidate>" the parser ignores:
   its value does not begin with "ice-ufrag:", "ice-pwd:", "mid:", "candidate:" *)
Definition sess_inert (c : cand) : Prop := other_line (p_a ++ cd_cand c) = true.

(* the candidates as the parser rebuilds them in section number i *)
Definition rc (u : option bytes) (i : Z) (mid : bytes) (c : cand) : cand :=
  mkCand (cd_cand c) u (Some i) (Some mid).

Definition renorm_md (u : option bytes) (i : Z) (m : md) : md :=
  mkMd (md_mline m) (md_mid m) (md_ufrag m) (md_pwd m) (map (rc u i (md_mid m)) (md_cands m)).

Fixpoint renorm_mds (u : option bytes) (i : nat) (ms : list md) : list md :=
  match ms with
  | [] => []
  | m :: ms' => renorm_md u (Z.of_nat i mod 65536) m :: renorm_mds u (S i) ms'
  end.

(* Unmarshal (Marshal f): the session-level candidates are gone, the pointer
   fields of the others are recomputed *)
Definition renorm (f : frag) : frag :=
  mkFrag (f_ufrag f) (f_pwd f) [] (renorm_mds (uf_of (f_ufrag f)) 0 (f_mds f)).

Lemma header_steps : forall u p,
  steps empty_frag None (opt_line p_ufrag u ++ opt_line p_pwd p) = SCont (mkFrag u p [] []) None.
Proof.
  intros [|x u] [|y p]; unfold opt_line; cbn [app steps];
    rewrite ?step_ufrag_none, ?step_pwd_none; reflexivity.
Qed.

Lemma sess_steps : forall cs f, Forall sess_inert cs ->
  steps f None (map (fun c => p_a ++ cd_cand c) cs) = SCont f None.
Proof.
  induction 1 as [|c cs Hc _ IH]; cbn [map steps]; [reflexivity|].
  rewrite (step_other _ _ _ Hc). exact IH.
Qed.

Lemma cand_steps : forall cs f a b c d acc,
  steps f (Some (mkMd a b c d acc)) (map (fun x => p_cand ++ cd_cand x) cs) =
  SCont f (Some (mkMd a b c d (acc ++ map (rc (uf_of (f_ufrag f)) (zlen_md f mod 65536) b) cs))).
Proof.
  induction cs as [|x cs IH]; intros f a b c d acc; cbn [map steps].
  - rewrite app_nil_r. reflexivity.
  - rewrite step_cand_some. unfold add_cand. cbn [md_mline md_mid md_ufrag md_pwd md_cands].
    rewrite IH, <- app_assoc. reflexivity.
Qed.

Lemma opt_ufrag_steps : forall f a b d e u rest,
  steps f (Some (mkMd a b [] d e)) (opt_line p_ufrag u ++ rest) = steps f (Some (mkMd a b u d e)) rest.
Proof.
  intros f a b d e [|x u] rest; unfold opt_line; cbn [app steps]; [reflexivity|].
  rewrite step_ufrag_some. reflexivity.
Qed.

Lemma opt_pwd_steps : forall f a b c e p rest,
  steps f (Some (mkMd a b c [] e)) (opt_line p_pwd p ++ rest) = steps f (Some (mkMd a b c p e)) rest.
Proof.
  intros f a b c e [|x p] rest; unfold opt_line; cbn [app steps]; [reflexivity|].
  rewrite step_pwd_some. reflexivity.
Qed.

Lemma md_steps : forall f cur m,
  steps f cur (md_lines m) =
  SCont (flush f cur)
        (Some (renorm_md (uf_of (f_ufrag (flush f cur))) (zlen_md (flush f cur) mod 65536) m)).
Proof.
  intros f cur m. unfold md_lines. cbn [steps].
  rewrite step_m, step_mid_some. unfold set_mid. cbn [md_mline md_mid md_ufrag md_pwd md_cands].
  rewrite opt_ufrag_steps, opt_pwd_steps, cand_steps. reflexivity.
Qed.

Lemma flush_fields : forall f cur,
  f_ufrag (flush f cur) = f_ufrag f /\ f_pwd (flush f cur) = f_pwd f /\
  f_cands (flush f cur) = f_cands f.
Proof. intros f [m|]; cbn; auto. Qed.

Lemma mds_run : forall ms f cur,
  run_lines_gen true f cur (flat_map md_lines ms) =
  ROk (mkFrag (f_ufrag f) (f_pwd f) (f_cands f)
         (f_mds (flush f cur) ++
          renorm_mds (uf_of (f_ufrag f)) (length (f_mds (flush f cur))) ms)).
Proof.
  induction ms as [|m ms IH]; intros f cur; cbn [flat_map renorm_mds].
  - cbn [run_lines_gen]. rewrite app_nil_r. destruct f, cur; reflexivity.
  - rewrite run_lines_app, md_steps, IH.
    destruct (flush_fields f cur) as (E1 & E2 & E3). rewrite E1, E2, E3.
    cbn [flush f_mds f_ufrag f_pwd f_cands]. rewrite app_length, <- app_assoc. cbn [length app].
    rewrite Nat.add_1_r. unfold zlen_md. reflexivity.
Qed.

Theorem run_marshal_lines : forall f, Forall sess_inert (f_cands f) ->
  run_lines_gen true empty_frag None (marshal_lines f) = ROk (renorm f).
Proof.
  intros f H. unfold marshal_lines.
  rewrite app_assoc, run_lines_app, header_steps, run_lines_app, (sess_steps _ _ H), mds_run.
  reflexivity.
Qed.

Theorem roundtrip : forall f,
  Forall line_rt (marshal_lines f) -> Forall sess_inert (f_cands f) ->
  unmarshal (marshal f) = ROk (renorm f).
Proof.
  intros f H1 H2. unfold unmarshal. rewrite (scan_marshal f H1). apply run_marshal_lines. exact H2.
Qed.

(* UFragPwd, which decides between trickling and an ICE restart, is the same
   on both sides of the round trip *)
Lemma ufrag_pwd_renorm_mds : forall ms u i, ufrag_pwd_mds (renorm_mds u i ms) = ufrag_pwd_mds ms.
Proof.
  induction ms as [|m ms IH]; intros u i; cbn [renorm_mds ufrag_pwd_mds]; [reflexivity|].
  unfold renorm_md. cbn [md_ufrag md_pwd]. rewrite IH. reflexivity.
Qed.

Theorem ufrag_pwd_renorm : forall f, ufrag_pwd (renorm f) = ufrag_pwd f.
Proof.
  intros f. unfold ufrag_pwd, renorm. cbn [f_ufrag f_pwd f_mds].
  rewrite ufrag_pwd_renorm_mds. reflexivity.
Qed.

(* ---- which fragments are fixed points: what Unmarshal establishes about the
   pointer fields of the candidates of media sections *)

Definition cand_norm (u : option bytes) (i : Z) (c : cand) : Prop :=
  cd_ufrag c = u /\ cd_mline c = Some i.

Fixpoint mds_norm (u : option bytes) (i : nat) (ms : list md) : Prop :=
  match ms with
  | [] => True
  | m :: ms' => Forall (cand_norm u (Z.of_nat i mod 65536)) (md_cands m) /\ mds_norm u (S i) ms'
  end.

Lemma mds_norm_snoc : forall ms u i m,
  mds_norm u i ms ->
  Forall (cand_norm u (Z.of_nat (i + length ms) mod 65536)) (md_cands m) ->
  mds_norm u i (ms ++ [m]).
Proof.
  induction ms as [|x ms IH]; intros u i m H1 H2; cbn [app mds_norm length] in *.
  - rewrite Nat.add_0_r in H2. split; [exact H2|exact I].
  - destruct H1 as [A B]. split; [exact A|]. apply IH; [exact B|].
    replace (S i + length ms)%nat with (i + S (length ms))%nat by lia. exact H2.
Qed.

(* the invariant of the scanner loop *)
Definition st_norm (f : frag) (cur : option md) : Prop :=
  mds_norm (uf_of (f_ufrag f)) 0 (f_mds f) /\
  match cur with
  | Some m => Forall (cand_norm (uf_of (f_ufrag f)) (zlen_md f mod 65536)) (md_cands m)
  | None => f_mds f = []
  end.

Lemma flush_norm : forall f cur, st_norm f cur ->
  mds_norm (uf_of (f_ufrag (flush f cur))) 0 (f_mds (flush f cur)).
Proof.
  intros f [m|] [H1 H2]; cbn [flush f_mds f_ufrag]; [|exact H1].
  apply mds_norm_snoc; [exact H1|]. exact H2.
Qed.

Lemma line_step_norm : forall f cur l f' cur',
  st_norm f cur -> line_step f cur l = SCont f' cur' -> st_norm f' cur'.
Proof.
  intros f cur l f' cur' Hs.
  pose proof (flush_norm f cur Hs) as Hfl.
  destruct Hs as [H1 H2].
  step_cases l cur; intros H; inversion H; subst; clear H.
  - split; [exact H1|exact H2].
  - cbn in H2. split; cbn [f_mds f_ufrag]; rewrite H2; [exact I|reflexivity].
  - split; [exact H1|exact H2].
  - split; [exact H1|exact H2].
  - (* m= *)
    destruct (flush_fields f cur) as (E1 & _). split; [exact Hfl|]. constructor.
  - split; [exact H1|exact H2].
  - (* candidate, in a section *)
    split; [exact H1|]. unfold add_cand. cbn [md_cands].
    apply Forall_app. split; [exact H2|]. constructor; [|constructor].
    split; cbn [cd_ufrag cd_mline]; [|reflexivity].
    unfold uf_of. destruct (f_ufrag f'); reflexivity.
  - cbn in H2. split; cbn [f_mds f_ufrag]; [exact H1|exact H2].
  - split; [exact H1|exact H2].
Qed.

Lemma run_lines_norm : forall ls f cur f',
  st_norm f cur -> run_lines_gen true f cur ls = ROk f' ->
  mds_norm (uf_of (f_ufrag f')) 0 (f_mds f').
Proof.
  induction ls as [|l ls IH]; intros f cur f' Hs H; cbn [run_lines_gen] in H.
  - inversion H. apply flush_norm. exact Hs.
  - destruct (line_step_gen true f cur l) as [f1 c1| |] eqn:E; try discriminate.
    exact (IH f1 c1 f' (line_step_norm f cur l f1 c1 Hs E) H).
Qed.

Theorem unmarshal_norm : forall data f, unmarshal data = ROk f ->
  mds_norm (uf_of (f_ufrag f)) 0 (f_mds f).
Proof.
  intros data f H. apply (run_lines_norm (scan_lines data) empty_frag None f); [|exact H].
  split; [exact I|reflexivity].
Qed.

(* every candidate of a media section carries the mid of its section (true
   when no "a=mid:" line follows an "a=candidate:" line in a section) *)
Definition mids_consistent (f : frag) : Prop :=
  Forall (fun m => Forall (fun c => cd_mid c = Some (md_mid m)) (md_cands m)) (f_mds f).

Lemma renorm_mds_id : forall ms u i,
  mds_norm u i ms ->
  Forall (fun m => Forall (fun c => cd_mid c = Some (md_mid m)) (md_cands m)) ms ->
  renorm_mds u i ms = ms.
Proof.
  induction ms as [|m ms IH]; intros u i Hn Hm; cbn [renorm_mds]; [reflexivity|].
  destruct Hn as [N1 N2]. inversion Hm as [|? ? M1 M2]; subst.
  rewrite (IH u (S i) N2 M2). f_equal.
  destruct m as [a b c d cs]. unfold renorm_md. cbn [md_mline md_mid md_ufrag md_pwd md_cands] in *.
  f_equal. clear - N1 M1.
  induction cs as [|x cs IHc]; [reflexivity|].
  inversion N1 as [|? ? [X1 X2] N1']; inversion M1 as [|? ? X3 M1']; subst.
  cbn [map]. rewrite (IHc N1' M1'). f_equal.
  destruct x as [v xu xi xm]. cbn in *. subst. reflexivity.
Qed.

Theorem renorm_id : forall data f, unmarshal data = ROk f ->
  f_cands f = [] -> mids_consistent f -> renorm f = f.
Proof.
  intros data f H Hc Hm. unfold renorm.
  rewrite (renorm_mds_id _ _ _ (unmarshal_norm data f H) Hm), <- Hc.
  destruct f; reflexivity.
Qed.

(* a parsed fragment without session-level candidates, whose candidates carry
   the mid of their section and whose lines leave room for the '\r', is read
   back from its own Marshal *)
Theorem roundtrip_exact : forall data f, unmarshal data = ROk f ->
  Forall (fun l => zlen l + 1 < max_token) (marshal_lines f) ->
  f_cands f = [] -> mids_consistent f ->
  unmarshal (marshal f) = ROk f.
Proof.
  intros data f H Hlen Hc Hm.
  rewrite <- (renorm_id data f H Hc Hm) at 2. apply roundtrip.
  - pose proof (marshal_lines_no_nl f (frag_ok_nl f (unmarshal_frag_ok data f H))) as Hn.
    rewrite Forall_forall in *. intros l Hl. split; [apply Hn|apply Hlen]; exact Hl.
  - rewrite Hc. constructor.
Qed.

(* for every parsed fragment without inert-violating session candidates: what
   comes back has the same ufrag, password, the same sections with the same
   m-line, mid, ufrag, password and the same candidate values in order *)
Theorem roundtrip_parsed : forall data f, unmarshal data = ROk f ->
  Forall (fun l => zlen l + 1 < max_token) (marshal_lines f) ->
  Forall sess_inert (f_cands f) ->
  unmarshal (marshal f) = ROk (renorm f).
Proof.
  intros data f H Hlen Hc. apply roundtrip; [|exact Hc].
  pose proof (marshal_lines_no_nl f (frag_ok_nl f (unmarshal_frag_ok data f H))) as Hn.
  rewrite Forall_forall in *. intros l Hl. split; [apply Hn|apply Hlen]; exact Hl.
Qed.

(* ---- what does NOT survive (computed witnesses) *)

(* "a=candidate:c": the session-level candidate is written "a=c" and is lost *)
Definition w_session : bytes := p_cand ++ [99; 10].
Theorem roundtrip_session_refuted :
  unmarshal w_session = ROk (mkFrag [] [] [mkCand [99] None None None] []) /\
  marshal (mkFrag [] [] [mkCand [99] None None None] []) = [97; 61; 99; 13; 10] /\
  unmarshal [97; 61; 99; 13; 10] = ROk empty_frag.
Proof. vm_compute. repeat split. Qed.

(* "a=candidate:ice-ufrag:x": the candidate comes back as the session ufrag;
   "a=candidate:mid:0": what Marshal wrote is rejected by Unmarshal *)
Definition w_inject : bytes := p_cand ++ [105;99;101;45;117;102;114;97;103;58; 120; 10].
Definition w_reject : bytes := p_cand ++ [109;105;100;58; 48; 10].
Theorem roundtrip_session_reinterpreted :
  (exists f, unmarshal w_inject = ROk f /\ f_ufrag f = [] /\
             unmarshal (marshal f) = ROk (mkFrag [120] [] [] [])) /\
  (exists f, unmarshal w_reject = ROk f /\ unmarshal (marshal f) = RErr).
Proof.
  split.
  - exists (mkFrag [] [] [mkCand [105;99;101;45;117;102;114;97;103;58; 120] None None None] []).
    vm_compute. repeat split.
  - exists (mkFrag [] [] [mkCand [109;105;100;58; 48] None None None] []).
    vm_compute. repeat split.
Qed.

(* "m=x / a=candidate:c / a=mid:0": the candidate was recorded with the mid ""
   the section had then; it comes back with the mid "0" *)
Definition w_mid : bytes := p_m ++ [120; 10] ++ p_cand ++ [99; 10] ++ p_mid ++ [48; 10].
Theorem roundtrip_mid_refuted :
  unmarshal w_mid = ROk (mkFrag [] [] [] [mkMd [120] [48] [] [] [mkCand [99] None (Some 0) (Some [])]]) /\
  (forall f, unmarshal w_mid = ROk f ->
     unmarshal (marshal f) =
     ROk (mkFrag [] [] [] [mkMd [120] [48] [] [] [mkCand [99] None (Some 0) (Some [48])]])).
Proof.
  split; [vm_compute; reflexivity|].
  intros f H. assert (E : unmarshal w_mid = ROk (mkFrag [] [] [] [mkMd [120] [48] [] [] [mkCand [99] None (Some 0) (Some [])]]))
    by (vm_compute; reflexivity).
  rewrite E in H. inversion H. vm_compute. reflexivity.
Qed.

(* a line of 65535 bytes ended by a bare '\n' is parsed; Marshal ends it with
   "\r\n", 65536 bytes before the '\n': the scanner gives up there *)
Definition w_long : bytes := p_m ++ [120; 10] ++ p_cand ++ repeat 99 (Z.to_nat 65523) ++ [10].
Theorem roundtrip_long_refuted :
  match unmarshal w_long with
  | ROk f =>
      length (all_candidates f) = 1%nat /\
      match unmarshal (marshal f) with
      | ROk f' => length (all_candidates f') = 0%nat /\ length (f_mds f') = 1%nat
      | _ => False
      end
  | _ => False
  end.
Proof. vm_compute. repeat split. Qed.

Definition roundtrip_full_statement : Prop :=
  forall data f, unmarshal data = ROk f -> unmarshal (marshal f) = ROk f.

Theorem roundtrip_refuted : ~ roundtrip_full_statement.
Proof.
  intros H. destruct roundtrip_session_refuted as (H1 & H2 & H3).
  specialize (H _ _ H1). rewrite H2, H3 in H. discriminate H.
Qed.

(* ------------------------------------------------------------------ *)
(* (c) AllCandidates of a parsed body *)

(* the values of the "a=candidate:" lines, in the order of the lines *)
Definition cand_values (ls : list bytes) : list bytes :=
  flat_map (fun l => match strip_prefix p_cand l with Some v => [v] | None => [] end) ls.

Lemma sp_cand_excl : forall l v, strip_prefix p_cand l = Some v ->
  strip_prefix p_ufrag l = None /\ strip_prefix p_pwd l = None /\
  strip_prefix p_m l = None /\ strip_prefix p_mid l = None.
Proof.
  intros l v H. apply strip_prefix_some in H. subst l. repeat split; reflexivity.
Qed.

Definition st_cands (f : frag) (cur : option md) : list bytes :=
  map cd_cand (f_cands f ++ flat_map md_cands (f_mds f) ++
               match cur with Some m => md_cands m | None => [] end).

Lemma flush_cands : forall f cur, map cd_cand (all_candidates (flush f cur)) = st_cands f cur.
Proof.
  intros f [m|]; unfold all_candidates, st_cands; cbn [flush f_cands f_mds].
  - rewrite flat_map_app. cbn [flat_map]. rewrite app_nil_r. reflexivity.
  - rewrite app_nil_r. reflexivity.
Qed.

(* before the first "m=" line there is no media section *)
Definition st_pre (f : frag) (cur : option md) : Prop :=
  match cur with None => f_mds f = [] | Some _ => True end.

Lemma line_step_pre : forall f cur l f' cur',
  st_pre f cur -> line_step f cur l = SCont f' cur' -> st_pre f' cur'.
Proof.
  intros f cur l f' cur' Hp.
  step_cases l cur; intros H; inversion H; subst; clear H; cbn in *; auto.
Qed.

Lemma line_step_cands : forall f cur l f' cur',
  st_pre f cur -> line_step f cur l = SCont f' cur' ->
  st_cands f' cur' = st_cands f cur ++ cand_values [l].
Proof.
  intros f cur l f' cur' Hp. unfold cand_values. cbn [flat_map]. rewrite app_nil_r.
  pose proof (flush_cands f cur) as Hfl.
  destruct (strip_prefix p_cand l) as [cv|] eqn:Ecv.
  - destruct (sp_cand_excl l cv Ecv) as (X1 & X2 & X3 & X4).
    unfold line_step, line_step_gen. rewrite X1, X2, X3, X4, Ecv.
    destruct cur as [m|]; cbn; intros H; inversion H; subst; clear H; unfold st_cands.
    + unfold add_cand. cbn [md_cands f_cands f_mds].
      rewrite !map_app. cbn [map cd_cand]. rewrite <- !app_assoc. reflexivity.
    + cbn in Hp. cbn [f_cands f_mds]. rewrite Hp. cbn [flat_map app].
      rewrite !app_nil_r, map_app. reflexivity.
  - step_cases l cur; intros H; inversion H; subst; clear H; rewrite ?app_nil_r;
      try reflexivity; try discriminate.
    (* m= *)
    rewrite <- Hfl. unfold st_cands, all_candidates. cbn [md_cands]. rewrite app_nil_r. reflexivity.
Qed.

Lemma run_lines_cands : forall ls f cur f',
  st_pre f cur -> run_lines_gen true f cur ls = ROk f' ->
  map cd_cand (all_candidates f') = st_cands f cur ++ cand_values ls.
Proof.
  induction ls as [|l ls IH]; intros f cur f' Hp H; cbn [run_lines_gen] in H.
  - inversion H. unfold cand_values. cbn [flat_map]. rewrite app_nil_r. apply flush_cands.
  - destruct (line_step_gen true f cur l) as [f1 c1| |] eqn:E; try discriminate.
    rewrite (IH f1 c1 f' (line_step_pre f cur l f1 c1 Hp E) H),
            (line_step_cands f cur l f1 c1 Hp E), <- app_assoc.
    unfold cand_values. cbn [flat_map]. rewrite app_nil_r. reflexivity.
Qed.

Theorem all_candidates_parsed : forall data f, unmarshal data = ROk f ->
  map cd_cand (all_candidates f) = cand_values (scan_lines data).
Proof.
  intros data f H. apply run_lines_cands in H; [exact H|reflexivity].
Qed.

(* session level / media sections: the session-level candidates are those of
   the lines before the first "m=" line *)
Fixpoint before_m (ls : list bytes) : list bytes :=
  match ls with
  | [] => []
  | l :: ls' => if is_m l then [] else l :: before_m ls'
  end.

Fixpoint from_m (ls : list bytes) : list bytes :=
  match ls with
  | [] => []
  | l :: ls' => if is_m l then ls else from_m ls'
  end.

Lemma line_step_some_cands : forall f m l f' cur',
  line_step f (Some m) l = SCont f' cur' -> f_cands f' = f_cands f /\ cur' <> None.
Proof.
  intros f m l f' cur'.
  unfold line_step, line_step_gen.
  destruct (strip_prefix p_ufrag l); [cbn; intros H; inversion H; split; [reflexivity|discriminate]|].
  destruct (strip_prefix p_pwd l); [cbn; intros H; inversion H; split; [reflexivity|discriminate]|].
  destruct (strip_prefix p_m l); [cbn; intros H; inversion H; split; [reflexivity|discriminate]|].
  destruct (strip_prefix p_mid l); [cbn; intros H; inversion H; split; [reflexivity|discriminate]|].
  destruct (strip_prefix p_cand l); cbn; intros H; inversion H; split; try reflexivity; discriminate.
Qed.

Lemma run_lines_some_cands : forall ls f m f',
  run_lines_gen true f (Some m) ls = ROk f' -> f_cands f' = f_cands f.
Proof.
  induction ls as [|l ls IH]; intros f m f' H; cbn [run_lines_gen] in H.
  - inversion H. reflexivity.
  - destruct (line_step_gen true f (Some m) l) as [f1 c1| |] eqn:E; try discriminate.
    destruct (line_step_some_cands f m l f1 c1 E) as [E1 E2].
    destruct c1 as [m1|]; [|congruence]. rewrite (IH f1 m1 f' H). exact E1.
Qed.

Lemma run_lines_session_cands : forall ls f f',
  run_lines_gen true f None ls = ROk f' ->
  map cd_cand (f_cands f') = map cd_cand (f_cands f) ++ cand_values (before_m ls).
Proof.
  induction ls as [|l ls IH]; intros f f' H; cbn [run_lines_gen before_m] in H |- *.
  - inversion H. cbn. rewrite app_nil_r. reflexivity.
  - unfold is_m. unfold line_step_gen in H.
    destruct (strip_prefix p_ufrag l) eqn:Eu.
    { rewrite (IH _ _ H). cbn [f_cands]. unfold cand_values. cbn [flat_map].
      destruct (strip_prefix p_cand l) eqn:Ec; [|reflexivity].
      destruct (sp_cand_excl _ _ Ec) as (X & _). congruence. }
    destruct (strip_prefix p_pwd l) eqn:Ep.
    { rewrite (IH _ _ H). cbn [f_cands]. unfold cand_values. cbn [flat_map].
      destruct (strip_prefix p_cand l) eqn:Ec; [|reflexivity].
      destruct (sp_cand_excl _ _ Ec) as (_ & X & _). congruence. }
    destruct (strip_prefix p_m l) eqn:Em.
    { cbn [flush] in H. rewrite (run_lines_some_cands _ _ _ _ H). cbn. rewrite app_nil_r. reflexivity. }
    destruct (strip_prefix p_mid l) eqn:Emid; [cbn in H; discriminate|].
    unfold cand_values. cbn [flat_map].
    destruct (strip_prefix p_cand l) eqn:Ec.
    + rewrite (IH _ _ H). cbn [f_cands]. rewrite map_app, <- app_assoc. reflexivity.
    + rewrite (IH _ _ H). reflexivity.
Qed.

Lemma cand_values_split : forall ls,
  cand_values ls = cand_values (before_m ls) ++ cand_values (from_m ls).
Proof.
  induction ls as [|l ls IH]; [reflexivity|]. cbn [before_m from_m].
  destruct (is_m l); [reflexivity|].
  unfold cand_values in *. cbn [flat_map]. rewrite IH, app_assoc. reflexivity.
Qed.

Theorem all_candidates_levels : forall data f, unmarshal data = ROk f ->
  map cd_cand (f_cands f) = cand_values (before_m (scan_lines data)) /\
  map cd_cand (flat_map md_cands (f_mds f)) = cand_values (from_m (scan_lines data)).
Proof.
  intros data f H.
  pose proof (all_candidates_parsed data f H) as A.
  pose proof (run_lines_session_cands _ _ _ H) as B. cbn [f_cands empty_frag map app] in B.
  split; [exact B|].
  unfold all_candidates in A. rewrite map_app, B in A.
  rewrite (cand_values_split (scan_lines data)) in A.
  apply app_inv_head in A. exact A.
Qed.

(* C05, part 2: the ring.  [view c] reads the slots newest-first.  Store
   pushes at the front and drops the oldest; resize truncates or pads at the
   old end.  Hence the last K stored packets are always present, where K
   follows the capacity as described in Properties/C05.v. *)
From Coq Require Import ZArith List Bool Lia Arith.
From Coq Require Import ZifyBool.
From Galene Require Import Lib.Word Lib.Ring Model.Cache Proofs.CacheSound.
Import ListNotations.
Open Scope Z_scope.
Ltac Zify.zify_post_hook ::= Z.div_mod_to_equations.

(* ---------- the cache ---------- *)
Definition tailn (c : cache) : nat := Z.to_nat (c_tail c).
Definition view (c : cache) : list entry := ring (tailn c) (c_entries c).
Definition Shape (c : cache) : Prop := 0 <= c_tail c < zlen (c_entries c).

(* the last K stored entries, then empty slots *)
Definition Rel (c : cache) (K : nat) (L : list entry) : Prop :=
  (K <= length (c_entries c))%nat /\ (K <= length L)%nat /\
  view c = firstn K L ++ repeat zero_entry (length (c_entries c) - K).

Lemma store_tail c s ts kf m buf :
  c_tail (snd (store c s ts kf m buf)) = (c_tail c + 1) mod zlen (c_entries c).
Proof.
  unfold store.
  destruct (negb (c_lastValid c) || seqno_invalid s (c_last c)).
  - destruct kf; reflexivity.
  - destruct (cmp16 (c_last c) s <? 0); [destruct kf; reflexivity|].
    destruct (0 <? cmp16 (c_last c) s); destruct kf; reflexivity.
Qed.


Lemma view_store c s ts kf m buf : Shape c ->
  let c' := snd (store c s ts kf m buf) in
  view c' = entry_of s ts m buf :: removelast (view c) /\ Shape c' /\
  length (c_entries c') = length (c_entries c).
Proof.
  intros Hs c'. unfold Shape, zlen in Hs.
  assert (He : c_entries c' = set_nth (tailn c) (entry_of s ts m buf) (c_entries c))
    by apply store_entries.
  assert (Ht : c_tail c' = (c_tail c + 1) mod zlen (c_entries c)) by apply store_tail.
  split; [|split].
  - unfold view. rewrite He.
    replace (tailn c') with (S (tailn c) mod length (c_entries c))%nat.
    + apply ring_store. unfold tailn. lia.
    + unfold tailn. rewrite Ht. unfold zlen.
      rewrite <- Nat2Z.id at 1. f_equal.
      rewrite Nat2Z.inj_mod. f_equal. lia.
  - unfold Shape. rewrite Ht, He. unfold zlen. rewrite set_nth_length. lia.
  - rewrite He. apply set_nth_length.
Qed.

Lemma view_resize c k : Shape c -> 1 <= k ->
  let c' := resize c k in
  let n := length (c_entries c) in
  view c' = firstn (Z.to_nat k) (view c ++ repeat zero_entry (Z.to_nat k - n)) /\
  Shape c' /\ length (c_entries c') = Z.to_nat k.
Proof.
  intros Hs Hk c' n. unfold Shape, zlen in Hs. fold n in Hs.
  unfold c', resize, zlen. fold n.
  assert (Hvl : length (view c) = n) by apply ring_length.
  destruct (Z.of_nat n =? k) eqn:E1.
  - replace (Z.to_nat k) with n by lia.
    rewrite Nat.sub_diag. cbn [repeat]. rewrite app_nil_r.
    rewrite firstn_all2 by lia. split; [reflexivity|].
    split; [unfold Shape, zlen; fold n; lia | fold n; lia].
  - destruct (Z.of_nat n <? k) eqn:E2.
    + (* grow *)
      unfold view, with_entries, tailn; cbn [c_tail c_entries].
      replace (Z.to_nat (k - Z.of_nat n)) with (Z.to_nat k - n)%nat by lia.
      rewrite ring_grow by lia.
      split; [|split].
      * rewrite firstn_all2; [reflexivity|].
        rewrite app_length, repeat_length. fold (tailn c). change (ring (tailn c) (c_entries c)) with (view c).
        rewrite Hvl. lia.
      * unfold Shape, zlen; cbn [c_tail c_entries].
        rewrite !app_length, firstn_length, repeat_length, skipn_length. fold n. lia.
      * rewrite !app_length, firstn_length, repeat_length, skipn_length. fold n. lia.
    + replace (Z.to_nat k - n)%nat with 0%nat by lia. cbn [repeat]. rewrite app_nil_r.
      destruct (c_tail c <? k) eqn:E3.
      * (* shrink keeping the tail *)
        unfold view, with_entries, tailn; cbn [c_tail c_entries].
        replace (Z.to_nat (c_tail c + Z.of_nat n - k)) with (Z.to_nat (c_tail c) + n - Z.to_nat k)%nat by lia.
        unfold n. rewrite ring_shrink_mid by (fold n; lia). fold n.
        split; [reflexivity|]. split.
        -- unfold Shape, zlen; cbn [c_tail c_entries].
           rewrite app_length, firstn_length, skipn_length. fold n. lia.
        -- rewrite app_length, firstn_length, skipn_length. fold n. lia.
      * (* shrink, tail := 0 *)
        unfold view, with_entries, tailn; cbn [c_tail c_entries].
        replace (Z.to_nat (c_tail c - k)) with (Z.to_nat (c_tail c) - Z.to_nat k)%nat by lia.
        change (Z.to_nat 0) with 0%nat.
        rewrite ring_shrink_low by (fold n; lia).
        split; [reflexivity|]. split.
        -- unfold Shape, zlen; cbn [c_tail c_entries].
           rewrite firstn_length, skipn_length. fold n. lia.
        -- rewrite firstn_length, skipn_length. fold n. lia.
Qed.

(* K after one operation: one more for a Store, never more than the capacity *)
Definition kstep (K : nat) (o : op) (c' : cache) : nat :=
  Nat.min (match o with OStore _ _ _ _ _ => S K | _ => K end) (length (c_entries c')).

Definition log_entry (o : op) : list entry :=
  match o with OStore s ts kf m buf => [entry_of s ts m buf] | _ => [] end.

Lemma removelast_app_repeat {A} (a : list A) z j :
  removelast (a ++ repeat z (S j)) = a ++ repeat z j.
Proof.
  replace (repeat z (S j)) with (repeat z j ++ [z]).
  - rewrite app_assoc. apply removelast_last.
  - clear. induction j; cbn; [reflexivity|]. f_equal. exact IHj.
Qed.

Lemma removelast_firstn_len {A} (l : list A) n : (S n <= length l)%nat ->
  removelast (firstn (S n) l) = firstn n l.
Proof. intros H. apply removelast_firstn. lia. Qed.

Lemma Rel_store c K L s ts kf m buf : Shape c -> Rel c K L ->
  let c' := snd (store c s ts kf m buf) in
  Rel c' (kstep K (OStore s ts kf m buf) c') (entry_of s ts m buf :: L) /\ Shape c'.
Proof.
  intros Hs (HK & HL & Hv) c'.
  destruct (view_store c s ts kf m buf Hs) as (Hv' & Hs' & Hlen). fold c' in Hv', Hs', Hlen.
  split; [|exact Hs'].
  unfold Rel, kstep. rewrite Hlen. set (n := length (c_entries c)) in *.
  assert (Hn : (1 <= n)%nat) by (unfold Shape, zlen in Hs; fold n in Hs; lia).
  rewrite Hv', Hv.
  destruct (Nat.eq_dec K n) as [->|Hne].
  - rewrite Nat.min_r by lia. rewrite Nat.sub_diag. cbn [repeat]. rewrite app_nil_r.
    split; [lia|]. split; [cbn [length]; lia|].
    destruct n as [|n']; [lia|].
    rewrite removelast_firstn_len by lia. cbn [firstn]. rewrite ?app_nil_r. reflexivity.
  - rewrite Nat.min_l by lia.
    split; [lia|]. split; [cbn [length]; lia|].
    replace (n - K)%nat with (S (n - S K)) by lia.
    rewrite removelast_app_repeat. reflexivity.
Qed.

Lemma firstn_firstn_app_repeat {A} (L : list A) z K n k : (K <= n)%nat -> (K <= length L)%nat ->
  firstn k ((firstn K L ++ repeat z (n - K)) ++ repeat z (k - n)) =
  firstn (Nat.min K k) L ++ repeat z (k - Nat.min K k).
Proof.
  intros HK HL. rewrite <- app_assoc, <- repeat_app.
  rewrite firstn_app, firstn_firstn, firstn_length.
  rewrite (Nat.min_l K (length L)) by lia.
  rewrite (Nat.min_comm k K). f_equal.
  destruct (Nat.le_gt_cases K k) as [Hle|Hgt].
  - rewrite (Nat.min_l K k) by lia.
    assert (Hr : forall a b, (a <= b)%nat -> firstn a (repeat z b) = repeat z a).
    { clear. intros a. induction a; intros b Hb; cbn; [reflexivity|].
      destruct b; [lia|]. cbn. f_equal. apply IHa. lia. }
    apply Hr. lia.
  - rewrite (Nat.min_r K k) by lia. replace (k - K)%nat with 0%nat by lia.
    replace (k - k)%nat with 0%nat by lia. reflexivity.
Qed.

Lemma Rel_resize c K L k : Shape c -> 1 <= k -> Rel c K L ->
  let c' := resize c k in Rel c' (Nat.min K (length (c_entries c'))) L /\ Shape c'.
Proof.
  intros Hs Hk (HK & HL & Hv) c'.
  destruct (view_resize c k Hs Hk) as (Hv' & Hs' & Hlen). fold c' in Hv', Hs', Hlen.
  split; [|exact Hs'].
  unfold Rel. rewrite Hlen, Hv', Hv.
  split; [lia|]. split; [lia|].
  apply firstn_firstn_app_repeat; assumption.
Qed.

Lemma Rel_same c c' K L : c_entries c' = c_entries c -> c_tail c' = c_tail c ->
  Rel c K L -> Shape c -> Rel c' (Nat.min K (length (c_entries c'))) L /\ Shape c'.
Proof.
  intros He Ht (HK & HL & Hv) Hs. unfold Rel, Shape, view, tailn in *.
  rewrite He, Ht. rewrite Nat.min_l by lia. auto.
Qed.

Lemma step_Rel c K L o : wf_op o -> Shape c -> Rel c K L ->
  let c' := fst (step c o) in
  Rel c' (kstep K o c') (log_entry o ++ L) /\ Shape c'.
Proof.
  intros Hwf Hs HR.
  destruct o as [s ts kf m buf|s|s i|k|k| | |n|n|r]; cbn [step log_entry app kstep].
  - destruct (store c s ts kf m buf) as [[f i] c1] eqn:E. cbn [fst].
    replace c1 with (snd (store c s ts kf m buf)) by (rewrite E; reflexivity).
    apply (Rel_store c K L s ts kf m buf Hs HR).
  - destruct (get c s); cbn [fst]. apply (Rel_same c); auto.
  - destruct (get_at c s i); cbn [fst]. apply (Rel_same c); auto.
  - cbn [fst]. apply Rel_resize; auto.
  - unfold resize_cond. destruct (_ && _); [cbn [fst]; apply (Rel_same c); auto|].
    destruct (_ && _); [cbn [fst]; apply (Rel_same c); auto|].
    cbn [fst]. apply Rel_resize; auto.
  - destruct (c_lastq c); cbn [fst]. apply (Rel_same c); auto.
  - destruct (c_keyframeq c); cbn [fst]. apply (Rel_same c); auto.
  - unfold bitmap_get. destruct (bm_get (c_bitmap c) n) as [[[fd f] b] b']. cbn [fst].
    apply (Rel_same c); auto.
  - unfold expect. destruct (n <=? 0); cbn [fst]; apply (Rel_same c); auto.
  - unfold get_stats. destruct r; cbn [fst]; apply (Rel_same c); auto.
Qed.

(* K and the log along a history (oldest first) *)
Fixpoint k_run (c : cache) (K : nat) (ops : list op) : nat :=
  match ops with
  | [] => K
  | o :: ops' => let c' := fst (step c o) in k_run c' (kstep K o c') ops'
  end.
Fixpoint log_run (L : list entry) (ops : list op) : list entry :=
  match ops with
  | [] => L
  | o :: ops' => log_run (log_entry o ++ L) ops'
  end.

Lemma run_Rel ops : forall c K L, Forall wf_op ops -> Shape c -> Rel c K L ->
  Rel (run_hist c ops) (k_run c K ops) (log_run L ops) /\ Shape (run_hist c ops).
Proof.
  induction ops as [|o ops IH]; intros c K L Hwf Hs HR; cbn [run_hist k_run log_run].
  - auto.
  - inversion Hwf as [|? ? Ho Hops]; subst.
    destruct (step_Rel c K L o Ho Hs HR) as (HR' & Hs').
    apply IH; assumption.
Qed.

Lemma Rel_new k : 1 <= k -> Rel (new_cache k) 0 [] /\ Shape (new_cache k).
Proof.
  intros Hk. unfold Rel, Shape, view, tailn, new_cache, zlen; cbn [c_entries c_tail].
  rewrite repeat_length. split; [|lia]. split; [lia|]. split; [cbn; lia|].
  cbn [firstn app]. rewrite Nat.sub_0_r.
  unfold ring. change (Z.to_nat 0) with 0%nat. cbn [skipn firstn]. rewrite app_nil_r.
  apply rev_repeat.
Qed.

(* a stronger reading of get_entries: nothing is returned only if no
   non-empty slot carries the number *)
Lemma get_entries_none s es :
  (forall e, In e es -> e_lam e = 0 \/ e_seq e <> s) ->
  get_entries s es = (0, 0, false, []).
Proof.
  induction es as [|e es IH]; intros H; cbn [get_entries]; [reflexivity|].
  destruct (H e (or_introl eq_refl)) as [Hz|Hne].
  - rewrite Hz. cbn. apply IH. intros; apply H; right; assumption.
  - replace (e_seq e =? s) with false by lia. rewrite orb_true_r.
    apply IH. intros; apply H; right; assumption.
Qed.

Lemma get_entries_some s es e0 : In e0 es -> e_lam e0 <> 0 -> e_seq e0 = s ->
  exists e, In e es /\ e_lam e <> 0 /\ e_seq e = s /\
    get_entries s es = (e_length e, e_ts e, e_marker e, firstn (Z.to_nat (e_length e)) (e_buf e)).
Proof.
  induction es as [|e es IH]; intros Hin Hl Hs; [destruct Hin|].
  cbn [get_entries].
  destruct ((e_lam e =? 0) || negb (e_seq e =? s)) eqn:E.
  - destruct Hin as [->|Hin]; [lia|].
    destruct (IH Hin Hl Hs) as (e' & H1 & H2 & H3 & H4).
    exists e'. split; [right; exact H1|auto].
  - exists e. split; [left; reflexivity|]. repeat split; lia.
Qed.

(* ---- the statement used by Properties/C05.v ---- *)
Lemma recent_retrievable c K L s ts m buf :
  Rel c K L -> 1 <= zlen buf <= BufSize ->
  In (entry_of s ts m buf) (firstn K L) ->
  (forall e, In e (firstn K L) -> e_seq e = s -> e = entry_of s ts m buf) ->
  get c s = (zlen buf, buf) /\
  get_entries s (c_entries c) = (zlen buf, ts, m, buf).
Proof.
  intros (HK & HL & Hv) Hwf Hin Huniq.
  set (e0 := entry_of s ts m buf) in *.
  destruct (entry_of_decode s ts m buf Hwf) as (D1 & D2 & D3 & D4 & D5 & D6). fold e0 in D1, D2, D3, D4, D5, D6.
  assert (Hin0 : In e0 (c_entries c)).
  { apply (ring_In (tailn c)). change (In e0 (view c)). rewrite Hv. apply in_or_app. left; exact Hin. }
  destruct (get_entries_some s (c_entries c) e0 Hin0 D1 D2) as (e & He1 & He2 & He3 & He4).
  assert (He : e = e0).
  { apply Huniq; [|exact He3].
    apply (ring_In (tailn c)) in He1. change (In e (view c)) in He1. rewrite Hv in He1.
    apply in_app_or in He1. destruct He1 as [H|H]; [exact H|].
    apply repeat_spec in H. subst e. cbn in He2. congruence. }
  subst e. rewrite D6, D3, D4, D5 in He4.
  split; [|exact He4].
  unfold get. rewrite He4. replace (0 <? zlen buf) with true by lia. reflexivity.
Qed.

(* The file system steps, the shapes of an operation's plan, and the
   invariant that ties the memory of the store to the token file. *)
From Coq Require Import ZArith List Bool Lia Permutation.
From Galene Require Import Model.TokenStore Proofs.TokenStoreBasics.
Import ListNotations.
Open Scope Z_scope.

(* ================= the disk ================= *)

Definition writes (l : list token) : list sys := map (fun t => SysWriteTmp (Rec t)) l.
Definition rewrite_prog (l : list token) (st : stamp) : list sys :=
  SysCreateTmp :: writes l ++ [SysCloseTmp; SysRename st].
Definition add_prog (t : token) (st0 st : stamp) : list sys :=
  [SysOpenAppend st0; SysAppend (Rec t) st].

Lemma run_sys_app : forall a b d, run_sys d (a ++ b) = run_sys (run_sys d a) b.
Proof. intros a b d. unfold run_sys. apply fold_left_app. Qed.

Lemma run_writes : forall l f acc,
  run_sys (mkDisk f (Some acc)) (writes l) = mkDisk f (Some (acc ++ map Rec l)).
Proof.
  induction l as [|t r IH]; intros f acc; cbn [writes map run_sys fold_left].
  - rewrite app_nil_r. reflexivity.
  - cbn [sys_step d_tmp d_main]. fold (writes r). fold (run_sys (mkDisk f (Some (acc ++ [Rec t]))) (writes r)).
    rewrite IH. rewrite <- app_assoc. reflexivity.
Qed.

Lemma run_rewrite_prog : forall f l st,
  run_sys (mkDisk f None) (rewrite_prog l st) = mkDisk (Some (mkFile (map Rec l) st)) None.
Proof.
  intros f l st. unfold rewrite_prog.
  change (run_sys (mkDisk f (Some [])) (writes l ++ [SysCloseTmp; SysRename st]) =
          mkDisk (Some (mkFile (map Rec l) st)) None).
  rewrite run_sys_app, run_writes. reflexivity.
Qed.

(* calls that only touch the temporary file *)
Definition tmp_only (c : sys) : bool :=
  match c with
  | SysCreateTmp | SysWriteTmp _ | SysCloseTmp | SysRemoveTmp => true
  | _ => false
  end.
Definition no_append (c : sys) : bool :=
  match c with SysAppend _ _ => false | _ => true end.

Lemma tmp_only_step : forall d c, tmp_only c = true -> d_main (sys_step d c) = d_main d.
Proof.
  intros d c H. destruct c; try discriminate; cbn [sys_step]; try reflexivity.
  destruct (d_tmp d); reflexivity.
Qed.
Lemma tmp_only_run : forall p d, forallb tmp_only p = true -> d_main (run_sys d p) = d_main d.
Proof.
  induction p as [|c r IH]; intros d H; [reflexivity|].
  cbn [forallb] in H. apply andb_true_iff in H. destruct H as [Hc Hr].
  cbn [run_sys fold_left]. fold (run_sys (sys_step d c) r).
  rewrite (IH _ Hr). apply tmp_only_step; exact Hc.
Qed.
Lemma torn_main : forall d c, no_append c = true -> d_main (sys_torn d c) = d_main d.
Proof.
  intros d c H. destruct c; try discriminate; cbn [sys_torn]; try reflexivity.
  destruct (d_tmp d); reflexivity.
Qed.

Lemma forallb_firstn : forall {A} (p : A -> bool) k l, forallb p l = true -> forallb p (firstn k l) = true.
Proof.
  intros A p. induction k as [|k IH]; intros l H; [reflexivity|].
  destruct l as [|x r]; [reflexivity|]. cbn [firstn forallb] in *.
  apply andb_true_iff in H. destruct H as [Hx Hr]. rewrite Hx, (IH _ Hr). reflexivity.
Qed.

Lemma crash_disk_all : forall d prog mid k, (length prog <= k)%nat ->
  crash_disk d prog k mid = run_sys d prog.
Proof.
  intros d prog mid k H. unfold crash_disk. rewrite firstn_all2 by exact H.
  assert (E : nth_error prog k = None) by (apply nth_error_None; exact H).
  rewrite E. destruct mid; reflexivity.
Qed.

Lemma fail_disk_main : forall d prog k,
  d_main (fail_disk d prog k) = d_main (crash_disk d prog k false).
Proof. reflexivity. Qed.

(* a program whose only call that touches the file is the last one: at every
   interruption point the file is untouched, or the program has completed *)
Lemma crash_last : forall pre c d k mid,
  forallb tmp_only pre = true -> no_append c = true ->
  d_main (crash_disk d (pre ++ [c]) k mid) = d_main d \/
  crash_disk d (pre ++ [c]) k mid = run_sys d (pre ++ [c]).
Proof.
  intros pre c d k mid Hpre Hc.
  destruct (Nat.le_gt_cases (length (pre ++ [c])) k) as [Hk|Hk].
  - right. apply crash_disk_all; exact Hk.
  - left. rewrite app_length in Hk. cbn [length] in Hk.
    assert (Hk' : (k <= length pre)%nat) by lia.
    unfold crash_disk. rewrite firstn_app.
    replace (k - length pre)%nat with 0%nat by lia. cbn [firstn]. rewrite app_nil_r.
    assert (Hm : d_main (run_sys d (firstn k pre)) = d_main d)
      by (apply tmp_only_run; apply forallb_firstn; exact Hpre).
    destruct mid; [| exact Hm].
    destruct (nth_error (pre ++ [c]) k) as [x|] eqn:E; [| exact Hm].
    rewrite torn_main; [exact Hm|].
    destruct (Nat.eq_dec k (length pre)) as [->|Hne].
    + rewrite nth_error_app2 in E by lia. rewrite Nat.sub_diag in E. cbn in E.
      inversion E; subst; exact Hc.
    + rewrite nth_error_app1 in E by lia.
      apply nth_error_In in E.
      assert (Hx : tmp_only x = true) by (eapply forallb_forall in Hpre; eassumption).
      destruct x; try discriminate; reflexivity.
Qed.

Lemma fail_last : forall pre c d k,
  forallb tmp_only pre = true -> (k < length (pre ++ [c]))%nat ->
  d_main (run_sys d (firstn k (pre ++ [c]))) = d_main d.
Proof.
  intros pre c d k Hp Hk. rewrite app_length in Hk. cbn [length] in Hk.
  rewrite firstn_app. replace (k - length pre)%nat with 0%nat by lia.
  cbn [firstn]. rewrite app_nil_r. apply tmp_only_run. apply forallb_firstn; exact Hp.
Qed.

Lemma writes_tmp_only : forall l, forallb tmp_only (writes l) = true.
Proof. induction l as [|t r IH]; [reflexivity | exact IH]. Qed.

Lemma rewrite_prog_split : forall l st,
  rewrite_prog l st = (SysCreateTmp :: writes l ++ [SysCloseTmp]) ++ [SysRename st].
Proof.
  intros l st. unfold rewrite_prog. cbn [app]. rewrite <- app_assoc. reflexivity.
Qed.
Lemma rewrite_pre_tmp_only : forall l,
  forallb tmp_only (SysCreateTmp :: writes l ++ [SysCloseTmp]) = true.
Proof.
  intros l. cbn [forallb tmp_only]. rewrite forallb_app, writes_tmp_only. reflexivity.
Qed.

(* rewrite(): old file or new file, whatever the interruption point, torn
   writes included *)
Lemma crash_rewrite_prog : forall f l st k mid,
  d_main (crash_disk (mkDisk f None) (rewrite_prog l st) k mid) = f \/
  d_main (crash_disk (mkDisk f None) (rewrite_prog l st) k mid) = Some (mkFile (map Rec l) st).
Proof.
  intros f l st k mid. rewrite rewrite_prog_split.
  destruct (crash_last (SysCreateTmp :: writes l ++ [SysCloseTmp]) (SysRename st)
                       (mkDisk f None) k mid (rewrite_pre_tmp_only l) eq_refl) as [H|H].
  - left; exact H.
  - right. rewrite H, <- rewrite_prog_split, run_rewrite_prog. reflexivity.
Qed.

Lemma crash_unlink : forall f k mid,
  d_main (crash_disk (mkDisk f None) [SysUnlink] k mid) = f \/
  d_main (crash_disk (mkDisk f None) [SysUnlink] k mid) = None.
Proof.
  intros f k mid.
  destruct (crash_last [] SysUnlink (mkDisk f None) k mid eq_refl eq_refl) as [H|H].
  - left; exact H.
  - right. cbn [app] in H. rewrite H. reflexivity.
Qed.

Definition lines_of (f : option file) : list entry :=
  match f with Some fl => f_lines fl | None => [] end.

(* add(): the interruption points one by one *)
Lemma crash_add_prog : forall f t st0 st k mid,
  let d := d_main (crash_disk (mkDisk f None) (add_prog t st0 st) k mid) in
  d = f \/
  (f = None /\ d = Some (mkFile [] st0)) \/
  (mid = true /\ d = Some (mkFile (lines_of f ++ [Junk]) st)) \/
  d = Some (mkFile (lines_of f ++ [Rec t]) st).
Proof.
  intros f t st0 st k mid.
  destruct k as [|[|k]].
  - left. destruct mid; reflexivity.
  - destruct f as [fl|].
    + destruct mid; [right; right; left; split; reflexivity | left; reflexivity].
    + destruct mid; [right; right; left; split; reflexivity | right; left; split; reflexivity].
  - right; right; right. cbv zeta.
    rewrite crash_disk_all by (cbn; lia).
    destruct f as [fl|]; reflexivity.
Qed.

Lemma run_add_prog : forall f t st0 st,
  d_main (run_sys (mkDisk f None) (add_prog t st0 st)) = Some (mkFile (lines_of f ++ [Rec t]) st).
Proof. intros [fl|] t st0 st; reflexivity. Qed.

(* ================= the shapes of a plan ================= *)

Lemma load_nonempty : forall m f m1 lr,
  load m f = (m1, lr) -> m_tokens m1 <> [] ->
  exists fl e, f = Some fl /\ lr = LOk e /\ m_st m1 = f_st fl.
Proof.
  intros m [fl|] m1 lr H Hne.
  - destruct lr as [e|].
    + exists fl, e. repeat split. apply (load_stamp _ _ _ _ H).
    + apply load_err in H. destruct H as [-> _]. exfalso; apply Hne; reflexivity.
  - rewrite load_none in H. inversion H; subst. exfalso; apply Hne; reflexivity.
Qed.

Lemma rewrite_plan_nil : forall m f st rb, m_tokens m = [] ->
  rewrite_plan m f st rb = mkPlan ROk [SysUnlink] m (rb m).
Proof. intros m f st rb H. unfold rewrite_plan. rewrite H. reflexivity. Qed.

Lemma rewrite_plan_sync : forall m fl st rb, m_tokens m <> [] -> m_st m = f_st fl ->
  rewrite_plan m (Some fl) st rb =
  mkPlan ROk (rewrite_prog (list_mem m None) st) (mkMem (m_tokens m) st) (rb m).
Proof.
  intros m fl st rb Hne Hst. unfold rewrite_plan.
  destruct (m_tokens m) as [|x r] eqn:E; [exfalso; apply Hne; reflexivity|].
  rewrite (load_same _ _ Hst). rewrite E. reflexivity.
Qed.

(* what Update (edit), Delete and Expire do to the memory before rewrite() *)
Inductive wkind : wop -> mem -> list token -> stamp -> (mem -> mem) -> Prop :=
| KEdit t e st0 st m1 old :
    tlookup (tk_name t) (m_tokens m1) = Some old -> e = etag_of m1 ->
    wkind (WUpdate t e st0 st) m1 (tset t (m_tokens m1)) st
          (fun m' => mkMem (tset old (m_tokens m')) (m_st m'))
| KDelete n e st m1 old :
    tlookup n (m_tokens m1) = Some old -> e = etag_of m1 ->
    wkind (WDelete n e st) m1 (tremove n (m_tokens m1)) st
          (fun m' => mkMem (tset old (m_tokens m')) (m_st m'))
| KExpire now st m1 :
    existsb (swept now) (m_tokens m1) = true ->
    wkind (WExpire now st) m1 (filter (fun t => negb (swept now t)) (m_tokens m1)) st
          (fun m' => m').

Inductive wcase (m : mem) (f : option file) (w : wop) (p : plan) : Prop :=
| WNoop m1 lr r :
    load m f = (m1, lr) -> p = noplan r m1 ->
    (r = ROk -> exists now st, w = WExpire now st) ->
    wcase m f w p
| WWrite m1 e0 fl toks2 st rb :
    load m f = (m1, LOk e0) -> f = Some fl -> m_st m1 = f_st fl ->
    wkind w m1 toks2 st rb ->
    p = rewrite_plan (mkMem toks2 (m_st m1)) f st rb ->
    wcase m f w p
| WAdd m1 e0 t st0 st :
    load m f = (m1, LOk e0) -> w = WUpdate t None st0 st ->
    tlookup (tk_name t) (m_tokens m1) = None ->
    p = mkPlan ROk (add_prog t st0 st) (mkMem (tset t (m_tokens m1)) st) m1 ->
    wcase m f w p.

Lemma lookup_nonempty : forall n l t, tlookup n l = Some t -> l <> [].
Proof. intros n [|x r] t H; [discriminate | discriminate]. Qed.
Lemma existsb_nonempty : forall {A} (p : A -> bool) l, existsb p l = true -> l <> [].
Proof. intros A p [|x r] H; [discriminate | discriminate]. Qed.

Lemma wplan_cases : forall m f w, wcase m f w (wplan m f w).
Proof.
  intros m f w. destruct w as [t e st0 st | n e st | now st]; cbn [wplan].
  - destruct (load m f) as [m1 lr] eqn:L. destruct lr as [e0|].
    2:{ eapply WNoop; [exact L | reflexivity | discriminate]. }
    destruct (tlookup (tk_name t) (m_tokens m1)) as [old|] eqn:Lk.
    + destruct (etag_eqb e (etag_of m1)) eqn:Et; cbn [negb].
      * destruct (load_nonempty _ _ _ _ L (lookup_nonempty _ _ _ Lk)) as (fl & e' & -> & _ & Hst).
        eapply WWrite; [exact L | reflexivity | exact Hst | | reflexivity].
        apply KEdit; [exact Lk | apply etag_eqb_eq; exact Et].
      * eapply WNoop; [exact L | reflexivity | discriminate].
    + destruct e as [ste|].
      * eapply WNoop; [exact L | reflexivity | discriminate].
      * eapply WAdd; [exact L | reflexivity | exact Lk | reflexivity].
  - destruct (load m f) as [m1 lr] eqn:L. destruct lr as [e0|].
    2:{ eapply WNoop; [exact L | reflexivity | discriminate]. }
    destruct (tlookup n (m_tokens m1)) as [old|] eqn:Lk.
    + destruct (etag_eqb e (etag_of m1)) eqn:Et; cbn [negb].
      * destruct (load_nonempty _ _ _ _ L (lookup_nonempty _ _ _ Lk)) as (fl & e' & -> & _ & Hst).
        eapply WWrite; [exact L | reflexivity | exact Hst | | reflexivity].
        apply KDelete; [exact Lk | apply etag_eqb_eq; exact Et].
      * eapply WNoop; [exact L | reflexivity | discriminate].
    + eapply WNoop; [exact L | reflexivity | discriminate].
  - destruct (load m f) as [m1 lr] eqn:L. destruct lr as [e0|].
    2:{ eapply WNoop; [exact L | reflexivity | discriminate]. }
    destruct (existsb (swept now) (m_tokens m1)) eqn:Ex.
    + destruct (load_nonempty _ _ _ _ L (existsb_nonempty _ _ Ex)) as (fl & e' & -> & _ & Hst).
      eapply WWrite; [exact L | reflexivity | exact Hst | | reflexivity].
      apply KExpire; exact Ex.
    + eapply WNoop; [exact L | reflexivity |]. intros _; eauto.
Qed.

(* the rewrite of a memory that carries the file's stamp *)
Lemma rewrite_plan_cases : forall toks2 fl st rb,
  let m2 := mkMem toks2 (f_st fl) in
  (toks2 = [] /\ rewrite_plan m2 (Some fl) st rb = mkPlan ROk [SysUnlink] m2 (rb m2)) \/
  (toks2 <> [] /\ rewrite_plan m2 (Some fl) st rb =
                  mkPlan ROk (rewrite_prog (list_mem m2 None) st) (mkMem toks2 st) (rb m2)).
Proof.
  intros toks2 fl st rb m2. destruct toks2 as [|x r] eqn:E.
  - left. split; [reflexivity | apply rewrite_plan_nil; reflexivity].
  - right. split; [discriminate|]. subst m2. rewrite rewrite_plan_sync; [reflexivity | discriminate | reflexivity].
Qed.

Definition wop_stamps (w : wop) : list stamp :=
  match w with
  | WUpdate _ _ st0 st => [st0; st]
  | WDelete _ _ st => [st]
  | WExpire _ st => [st]
  end.

Lemma wkind_stamp : forall w m1 toks2 st rb, wkind w m1 toks2 st rb -> In st (wop_stamps w).
Proof. intros w m1 toks2 st rb H; destruct H; cbn; auto. Qed.

(* the file at any interruption point, after completion, or after a failed
   call: the old file, no file, or a file that carries a stamp of the
   operation *)
Lemma crash_file_cases : forall m f w k mid,
  let d := d_main (crash_disk (mkDisk f None) (pl_prog (wplan m f w)) k mid) in
  d = f \/ d = None \/ exists fl, d = Some fl /\ In (f_st fl) (wop_stamps w).
Proof.
  intros m f w k mid. cbv zeta.
  destruct (wplan_cases m f w) as [m1 lr r L -> _ | m1 e0 fl toks2 st rb L -> Hst K -> | m1 e0 t st0 st L -> Lk ->].
  - left. cbn [pl_prog noplan]. unfold crash_disk. rewrite firstn_nil. cbn.
    destruct mid; [destruct k|]; reflexivity.
  - rewrite Hst.
    destruct (rewrite_plan_cases toks2 fl st rb) as [[_ ->]|[_ ->]]; cbn [pl_prog].
    + destruct (crash_unlink (Some fl) k mid) as [H|H]; auto.
    + destruct (crash_rewrite_prog (Some fl) (list_mem (mkMem toks2 (f_st fl)) None) st k mid) as [H|H]; auto.
      right; right. eexists; split; [exact H|]. cbn [f_st]. eapply wkind_stamp; exact K.
  - cbn [pl_prog].
    destruct (crash_add_prog f t st0 st k mid) as [H|[[_ H]|[[_ H]|H]]]; auto;
      right; right; eexists; (split; [exact H|]); cbn; auto.
Qed.

Lemma run_is_crash : forall d prog, run_sys d prog = crash_disk d prog (length prog) false.
Proof. intros d prog. symmetry. apply crash_disk_all. apply Nat.le_refl. Qed.

(* ================= the invariant ================= *)

Record Inv (used : list stamp) (s : state) : Prop := mkInv {
  inv_nodup : NoDup (names (m_tokens (s_mem s)));
  inv_memst : m_st (s_mem s) = zero_stamp \/ In (m_st (s_mem s)) used;
  inv_filest : forall fl, s_file s = Some fl -> In (f_st fl) used;
  inv_used : forall st, In st used -> st_mtime st <> 0;
  inv_mirror : file_mirror (s_mem s) (s_file s)
}.

Lemma Inv_init : Inv [] init_state.
Proof.
  constructor; cbn; try tauto; try discriminate. constructor.
Qed.

Lemma Inv_weaken : forall used extra s,
  Inv used s -> (forall st, In st extra -> st_mtime st <> 0) -> Inv (extra ++ used) s.
Proof.
  intros used extra s [H1 H2 H3 H4 H5] He. constructor; auto.
  - destruct H2; [left | right; apply in_or_app; right]; assumption.
  - intros fl Hf. apply in_or_app; right; auto.
  - intros st Hi. apply in_app_or in Hi. destruct Hi; auto.
Qed.

Lemma Inv_reset : forall used f,
  (forall fl, f = Some fl -> In (f_st fl) used) ->
  (forall st, In st used -> st_mtime st <> 0) ->
  Inv used (mkState reset_mem f).
Proof.
  intros used f Hf Hu. constructor; cbn [s_mem s_file reset_mem m_tokens m_st]; auto.
  - constructor.
  - destruct f as [fl|]; cbn; [|trivial]. intros E. exfalso.
    apply (Hu (f_st fl)); [apply Hf; reflexivity | rewrite <- E; reflexivity].
Qed.

Lemma load_Inv : forall used m f m1 lr,
  Inv used (mkState m f) -> load m f = (m1, lr) ->
  Inv used (mkState m1 f) /\ (forall e, lr = LOk e -> synced m1 f /\ e = etag_of m1).
Proof.
  intros used m f m1 lr [H1 H2 H3 H4 H5] L. cbn [s_mem s_file] in *.
  assert (Hs : forall e, lr = LOk e -> synced m1 f /\ e = etag_of m1).
  { intros e ->. eapply load_ok_synced; eassumption. }
  split; [| exact Hs].
  destruct lr as [e|].
  - constructor; cbn [s_mem s_file]; auto.
    + eapply load_NoDup; eassumption.
    + destruct (load_cases _ _ _ _ L) as [->|[->|(fl & ts & -> & _ & ->)]]; auto.
      right. cbn. apply H3; reflexivity.
    + apply synced_mirror. apply (Hs e eq_refl).
  - destruct (load_err _ _ _ L) as [-> _]. apply Inv_reset; assumption.
Qed.

Lemma written_mirror : forall toks x, NoDup (names toks) ->
  exists ts, parse (map Rec (list_mem (mkMem toks x) None)) = Some ts /\ eqm toks ts.
Proof.
  intros toks x Hnd.
  pose proof (list_mem_all (mkMem toks x)) as P. cbn [m_tokens] in P.
  assert (Hnd' : NoDup (names (list_mem (mkMem toks x) None))).
  { eapply Permutation_NoDup; [apply Permutation_map; apply Permutation_sym; exact P | exact Hnd]. }
  destruct (parse_recs _ Hnd') as (ts & Hp & He).
  exists ts; split; [exact Hp|].
  eapply eqm_trans; [| exact He]. apply eqm_sym. apply perm_eqm; assumption.
Qed.

Lemma wkind_NoDup : forall w m1 toks2 st rb,
  wkind w m1 toks2 st rb -> NoDup (names (m_tokens m1)) -> NoDup (names toks2).
Proof.
  intros w m1 toks2 st rb K H. destruct K.
  - apply NoDup_tset; exact H.
  - apply NoDup_remove; exact H.
  - apply NoDup_filter_names; exact H.
Qed.

(* after a failed Update or Delete the memory is what it was *)
Lemma wkind_rollback : forall w m1 toks2 st rb x,
  wkind w m1 toks2 st rb -> (forall now st', w <> WExpire now st') ->
  NoDup (names (m_tokens m1)) ->
  eqm (m_tokens (rb (mkMem toks2 x))) (m_tokens m1) /\
  NoDup (names (m_tokens (rb (mkMem toks2 x)))) /\
  m_st (rb (mkMem toks2 x)) = x.
Proof.
  intros w m1 toks2 st rb x K Hne Hnd. destruct K as [t e st0 st m1 old Lk _ | n e st m1 old Lk _ | now st m1 _].
  - cbn [m_tokens m_st]. split; [apply eqm_tset_back; exact Lk|]. split; [|reflexivity].
    apply NoDup_tset. apply NoDup_tset. exact Hnd.
  - cbn [m_tokens m_st]. split; [apply eqm_tset_back_remove; exact Lk|]. split; [|reflexivity].
    apply NoDup_tset. apply NoDup_remove. exact Hnd.
  - exfalso. eapply Hne; reflexivity.
Qed.

Definition fresh_stamps (used : list stamp) (l : list stamp) : Prop :=
  forall st, In st l -> ~ In st used /\ st_mtime st <> 0.

Lemma fresh_stamps_mtime : forall used l, fresh_stamps used l -> forall st, In st l -> st_mtime st <> 0.
Proof. intros used l H st Hi. apply (H st Hi). Qed.

(* the state after a write operation that ran to completion *)
Lemma do_Inv : forall used s w,
  Inv used s -> fresh_stamps used (wop_stamps w) ->
  Inv (wop_stamps w ++ used) (fst (step s (ODo w))).
Proof.
  intros used [m f] w HI Hf. cbn [step s_mem s_file fst].
  pose proof (fresh_stamps_mtime _ _ Hf) as Hmt.
  destruct (wplan_cases m f w) as [m1 lr r L -> _ | m1 e0 fl toks2 st rb L -> Hst K -> | m1 e0 t st0 st L -> Lk ->].
  - cbn [pl_ok pl_prog noplan run_sys fold_left d_main].
    apply Inv_weaken; [| exact Hmt]. apply (load_Inv _ _ _ _ _ HI L).
  - destruct (load_Inv _ _ _ _ _ HI L) as [HI1 Hs]. destruct (Hs _ eq_refl) as [Hsy _].
    pose proof (inv_nodup _ _ HI1) as Hnd1. cbn [s_mem] in Hnd1.
    pose proof (wkind_NoDup _ _ _ _ _ K Hnd1) as Hnd2.
    pose proof (Inv_weaken _ (wop_stamps w) _ HI1 Hmt) as HIw.
    rewrite Hst.
    destruct (rewrite_plan_cases toks2 fl st rb) as [[-> ->]|[_ ->]]; cbn [pl_ok pl_prog].
    + (* unlink *)
      cbn [run_sys fold_left sys_step d_main d_tmp].
      constructor; cbn [s_mem s_file m_tokens m_st]; [constructor | | discriminate | | exact I].
      * rewrite <- Hst. apply (inv_memst _ _ HIw).
      * apply (inv_used _ _ HIw).
    + rewrite run_rewrite_prog. cbn [d_main].
      constructor; cbn [s_mem s_file m_tokens m_st]; [exact Hnd2 | | | apply (inv_used _ _ HIw) |].
      * right. apply in_or_app; left. eapply wkind_stamp; exact K.
      * intros fl' E; inversion E; subst; cbn [f_st]. apply in_or_app; left. eapply wkind_stamp; exact K.
      * cbn [file_mirror f_st f_lines]. intros _. apply written_mirror; exact Hnd2.
  - destruct (load_Inv _ _ _ _ _ HI L) as [HI1 Hs]. destruct (Hs _ eq_refl) as [Hsy _].
    pose proof (inv_nodup _ _ HI1) as Hnd1. cbn [s_mem] in Hnd1.
    pose proof (Inv_weaken _ (wop_stamps (WUpdate t None st0 st)) _ HI1 Hmt) as HIw.
    cbn [pl_ok pl_prog]. rewrite run_add_prog.
    constructor; cbn [s_mem s_file m_tokens m_st].
    + apply NoDup_tset; exact Hnd1.
    + right. cbn; auto.
    + intros fl' E; inversion E; subst; cbn; auto.
    + apply (inv_used _ _ HIw).
    + cbn [file_mirror f_st f_lines]. intros _.
      assert (Hp : exists ts1, parse (lines_of f) = Some ts1 /\ eqm (m_tokens m1) ts1).
      { destruct f as [fl|]; cbn [synced lines_of] in *.
        - apply Hsy.
        - subst m1. exists []; split; [reflexivity | apply eqm_refl]. }
      destruct Hp as (ts1 & Hp1 & He1).
      exists (tset t ts1). split.
      * unfold parse in *. rewrite parse_from_app, Hp1. reflexivity.
      * apply eqm_tset; exact He1.
Qed.

(* the state after a crash at any point of a write operation *)
Lemma crash_Inv : forall used s w k mid,
  Inv used s -> fresh_stamps used (wop_stamps w) ->
  Inv (wop_stamps w ++ used) (fst (step s (OCrash w k mid))).
Proof.
  intros used [m f] w k mid HI Hf. cbn [step s_mem s_file fst].
  pose proof (fresh_stamps_mtime _ _ Hf) as Hmt.
  pose proof (Inv_weaken _ (wop_stamps w) _ HI Hmt) as HIw.
  apply Inv_reset; [| apply (inv_used _ _ HIw)].
  intros fl' E.
  destruct (crash_file_cases m f w k mid) as [H|[H|(fl & H & Hin)]]; rewrite H in E.
  - apply (inv_filest _ _ HIw). exact E.
  - discriminate.
  - inversion E; subst. apply in_or_app; left; exact Hin.
Qed.

Definition not_expire (w : wop) : Prop := forall now st, w <> WExpire now st.

(* the state after an I/O error in Update or Delete *)
Lemma fail_Inv : forall used s w k,
  Inv used s -> fresh_stamps used (wop_stamps w) -> not_expire w ->
  Inv (wop_stamps w ++ used) (fst (step s (OFail w k))).
Proof.
  intros used [m f] w k HI Hf Hne.
  pose proof (do_Inv used (mkState m f) w HI Hf) as Hdo.
  cbn [step s_mem s_file] in *.
  destruct (k <? length (pl_prog (wplan m f w)))%nat eqn:Hk; [| exact Hdo]. clear Hdo.
  apply Nat.ltb_lt in Hk. cbn [fst].
  pose proof (fresh_stamps_mtime _ _ Hf) as Hmt.
  destruct (wplan_cases m f w) as [m1 lr r L E _ | m1 e0 fl toks2 st rb L E Hst K E2 | m1 e0 t st0 st L E Lk E2].
  - rewrite E in Hk. cbn in Hk. lia.
  - subst f. destruct (load_Inv _ _ _ _ _ HI L) as [HI1 Hs]. destruct (Hs _ eq_refl) as [Hsy _].
    pose proof (inv_nodup _ _ HI1) as Hnd1. cbn [s_mem] in Hnd1.
    pose proof (Inv_weaken _ (wop_stamps w) _ HI1 Hmt) as HIw.
    rewrite E2 in *. rewrite Hst in *.
    destruct (wkind_rollback _ _ _ _ _ (f_st fl) K Hne Hnd1) as (Heq & Hnd & Hrs).
    assert (Hmain : d_main (fail_disk (mkDisk (Some fl) None)
                     (pl_prog (rewrite_plan (mkMem toks2 (f_st fl)) (Some fl) st rb)) k) = Some fl).
    { rewrite fail_disk_main. unfold crash_disk.
      destruct (rewrite_plan_cases toks2 fl st rb) as [[_ R]|[_ R]]; rewrite R in *; cbn [pl_prog] in *.
      - cbn in Hk. replace k with 0%nat by lia. reflexivity.
      - rewrite rewrite_prog_split in Hk |- *.
        rewrite fail_last; [reflexivity | apply rewrite_pre_tmp_only | exact Hk]. }
    rewrite Hmain.
    assert (Hfail : pl_fail (rewrite_plan (mkMem toks2 (f_st fl)) (Some fl) st rb) = rb (mkMem toks2 (f_st fl))).
    { destruct (rewrite_plan_cases toks2 fl st rb) as [[_ R]|[_ R]]; rewrite R; reflexivity. }
    rewrite Hfail.
    constructor; cbn [s_mem s_file].
    + exact Hnd.
    + rewrite Hrs. right. apply (inv_filest _ _ HIw). reflexivity.
    + apply (inv_filest _ _ HIw).
    + apply (inv_used _ _ HIw).
    + cbn [file_mirror]. intros _. cbn [synced] in Hsy. destruct Hsy as [_ (ts & Hp & He)].
      exists ts; split; [exact Hp|]. eapply eqm_trans; [exact Heq | exact He].
  - rewrite E2 in *. cbn [pl_prog pl_fail add_prog length] in *.
    destruct (load_Inv _ _ _ _ _ HI L) as [HI1 Hs]. destruct (Hs _ eq_refl) as [Hsy _].
    rewrite E in *.
    pose proof (Inv_weaken _ (wop_stamps (WUpdate t None st0 st)) _ HI1 Hmt) as HIw.
    destruct k as [|[|k]]; [| | lia].
    + exact HIw.
    + destruct f as [fl|]; [exact HIw|].
      cbn [synced] in Hsy. subst m1.
      apply Inv_reset; [| apply (inv_used _ _ HIw)].
      cbn. intros fl' E'; inversion E'; subst; cbn; auto.
Qed.

(* C07, layer 2: what a step does to its OWN actor's queue, group and down
   streams. *)
From Coq Require Import List Bool Arith PeanoNat Lia.
From Galene Require Import Model.Subscribe Proofs.SubscribeFrame Proofs.SubscribeInv
  Proofs.SubscribeStep Proofs.SubscribeHeap.
Import ListNotations.

(* the operation leaves the actor's down streams, queue, group, liveness alone *)
Definition keeps (m : nat) (w w' : world) : Prop :=
  c_down (w_cl w' m) = c_down (w_cl w m) /\ c_queue (w_cl w' m) = c_queue (w_cl w m) /\
  c_group (w_cl w' m) = c_group (w_cl w m) /\ c_dead (w_cl w' m) = c_dead (w_cl w m).

Lemma keeps_refl : forall m w, keeps m w w.
Proof. intros. repeat split. Qed.

Lemma keeps_trans : forall m a b c, keeps m a b -> keeps m b c -> keeps m a c.
Proof. intros m a b c [A1 [A2 [A3 A4]]] [B1 [B2 [B3 B4]]]. repeat split; congruence. Qed.

Lemma keeps_send : forall m c x w, keeps m w (send c x w).
Proof. intros. unfold keeps. autorewrite with sub. repeat split. Qed.

Lemma keeps_fail_up : forall m c id w, keeps m w (fail_up c id w).
Proof. intros. unfold fail_up. eapply keeps_trans; apply keeps_send. Qed.

Lemma keeps_upd_up : forall m u f w, keeps m w (upd_up u f w).
Proof. intros. repeat split. Qed.

Lemma keeps_enq_all_notin : forall m ts a w, ~ In m ts -> keeps m w (enq_all ts a w).
Proof.
  intros m ts a w Hn. unfold keeps. autorewrite with sub. repeat split; auto.
  rewrite enq_all_c_queue.
  assert (E : count_in m ts = 0).
  { destruct (count_in m ts) eqn:E; [reflexivity|]. exfalso. apply Hn. apply count_in_pos. lia. }
  rewrite E. simpl. apply app_nil_r.
Qed.

Lemma keeps_del_up_conn' : forall m id push w, keeps m w (del_up_conn' m id push w).
Proof.
  intros m id push w. unfold del_up_conn'.
  destruct (lookup id (c_up (w_cl w m))) as [u|] eqn:Hl.
  - rewrite (del_up_conn_unfold _ _ _ _ _ Hl).
    assert (H : keeps m w (remove_close m id u w)).
    { unfold keeps, remove_close. simpl. rewrite Nat.eqb_refl. simpl. repeat split. }
    destruct push; [destruct (c_group (w_cl w m))|]; try exact H.
    eapply keeps_trans; [exact H|]. apply keeps_enq_all_notin. apply not_in_others.
  - unfold del_up_conn. rewrite Hl. apply keeps_refl.
Qed.

Lemma keeps_new_up_conn : forall m id label g w, keeps m w (new_up_conn m id label g w).
Proof.
  intros. unfold keeps, new_up_conn, new_timer. simpl. rewrite Nat.eqb_refl. simpl. repeat split.
Qed.

Lemma keeps_offer_tail : forall m id replace u s w, keeps m w (offer_tail m id replace u s w).
Proof.
  intros. unfold offer_tail. set (w2 := if Nat.eqb replace 0 then w else _).
  assert (H : keeps m w w2).
  { unfold w2. destruct (Nat.eqb replace 0); [apply keeps_refl|].
    eapply keeps_trans; [apply (keeps_upd_up m u)|apply keeps_del_up_conn']. }
  destruct s; [destruct (uo_closed (w_up w2 u))|..]; (eapply keeps_trans; [exact H|]);
    try apply keeps_fail_up; apply keeps_send.
Qed.

Lemma keeps_got_offer : forall m id label replace s w, keeps m w (got_offer m id label replace s w).
Proof.
  intros. unfold got_offer.
  destruct (get_down id (c_down (w_cl w m))); [apply keeps_fail_up|].
  destruct (lookup id (c_up (w_cl w m))); [apply keeps_offer_tail|].
  destruct s; destruct (c_group (w_cl w m)); try apply keeps_fail_up;
    (eapply keeps_trans; [apply keeps_new_up_conn|apply keeps_offer_tail]).
Qed.

Lemma keeps_unpresent_fold : forall m l w, keeps m w (unpresent_fold m l w).
Proof.
  induction l as [|x r IH]; intros w; [apply keeps_refl|]. simpl.
  pose proof (keeps_del_up_conn' m (fst x) true w) as H. unfold del_up_conn' in H.
  destruct (del_up_conn m (fst x) true w); [apply IH|].
  eapply keeps_trans; [exact H|]. eapply keeps_trans; [apply keeps_fail_up|apply IH].
Qed.

(* ---- the actor's own message *)

Definition downs_sub (m : nat) (w w' : world) : Prop :=
  forall d', In d' (c_down (w_cl w' m)) ->
    exists d0, In d0 (c_down (w_cl w m)) /\ d_id d0 = d_id d' /\ d_remote d0 = d_remote d'.

Lemma downs_sub_keeps : forall m w w', keeps m w w' -> downs_sub m w w'.
Proof. intros m w w' [H _] d' Hin. rewrite H in Hin. exists d'. auto. Qed.

Lemma downs_sub_same : forall m w w', c_down (w_cl w' m) = c_down (w_cl w m) -> downs_sub m w w'.
Proof. intros m w w' H d' Hin. rewrite H in Hin. exists d'. auto. Qed.

Lemma downs_sub_remove : forall m id w w', c_down (w_cl w' m) = remove_down id (c_down (w_cl w m)) -> downs_sub m w w'.
Proof. intros m id w w' H d' Hin. rewrite H in Hin. apply in_remove_down in Hin. exists d'. tauto. Qed.

Lemma downs_sub_replace : forall m d d0 w w',
  c_down (w_cl w' m) = replace_down d (c_down (w_cl w m)) ->
  get_down (d_id d) (c_down (w_cl w m)) = Some d0 -> d_remote d0 = d_remote d ->
  downs_sub m w w'.
Proof.
  intros m d d0 w w' H Hg Hr d' Hin. rewrite H in Hin.
  destruct (get_down_in _ _ _ Hg) as [Hin0 Hid0].
  apply in_replace_down in Hin. destruct Hin as [->|[[Hin _]|[Hin _]]].
  - exists d0. auto.
  - exists d'. auto.
  - exists d'. auto.
Qed.

Lemma error_close_dead : forall c w, c_dead (w_cl (error_close c w) c) = true.
Proof. intros. unfold error_close, upd_cl. simpl. rewrite Nat.eqb_refl. reflexivity. Qed.

Definition own_ok (m : nat) (w w' : world) : Prop :=
  (exists l, c_queue (w_cl w' m) = c_queue (w_cl w m) ++ l) /\
  downs_sub m w w' /\
  (c_down (w_cl w' m) <> [] -> c_group (w_cl w' m) = c_group (w_cl w m)).

Lemma own_ok_keeps : forall m w w', keeps m w w' -> own_ok m w w'.
Proof.
  intros m w w' H. split; [|split].
  - exists []. rewrite app_nil_r. destruct H as [_ [H _]]. exact H.
  - apply downs_sub_keeps. exact H.
  - intros _. destruct H as [_ [_ [H _]]]. exact H.
Qed.

Lemma leave_group_own : forall m w,
  c_down (w_cl (leave_group m w) m) = [] \/ leave_group m w = w.
Proof.
  intros. unfold leave_group. destruct (c_group (w_cl w m)); [|right; reflexivity].
  left. unfold upd_cl. simpl. rewrite Nat.eqb_refl. reflexivity.
Qed.

Lemma leave_fold_keeps : forall m l w, keeps m w (leave_fold m l w).
Proof.
  induction l as [|x r IH]; intros w; [apply keeps_refl|]. simpl.
  eapply keeps_trans; [apply keeps_del_up_conn'|apply IH].
Qed.

Lemma leave_group_queue : forall m w, c_queue (w_cl (leave_group m w) m) = c_queue (w_cl w m).
Proof.
  intros. unfold leave_group. destruct (c_group (w_cl w m)); [|reflexivity].
  unfold upd_cl. simpl. rewrite Nat.eqb_refl. simpl.
  destruct (leave_fold_keeps m (c_up (w_cl w m)) w) as [_ [H _]]. exact H.
Qed.

Lemma negotiate_own : forall m d r w,
  c_queue (w_cl (negotiate m d r w) m) = c_queue (w_cl w m) /\
  c_group (w_cl (negotiate m d r w) m) = c_group (w_cl w m) /\
  c_dead (w_cl (negotiate m d r w) m) = c_dead (w_cl w m) /\
  exists d2, d_id d2 = d_id d /\ d_remote d2 = d_remote d /\
             c_down (w_cl (negotiate m d r w) m) = replace_down d2 (c_down (w_cl w m)).
Proof.
  intros. unfold negotiate. destruct (d_havelocal d); autorewrite with sub; rewrite ?Nat.eqb_refl.
  - repeat split. exists (down_set_sig true true d). repeat split.
  - repeat split; try apply app_nil_r. exists (down_set_sig true false d). repeat split.
Qed.

Lemma msg_own : forall w m msg,
  Inv w ->
  c_dead (w_cl (step w (OpMsg m msg)) m) = false -> own_ok m w (step w (OpMsg m msg)).
Proof.
  intros w m msg I Hlive. simpl in *.
  destruct (Nat.ltb m (w_n w) && negb (c_dead (w_cl w m))); [|apply own_ok_keeps; apply keeps_refl].
  destruct (handle_msg m msg w) as [w' e] eqn:E. unfold finish in *. simpl in *.
  destruct e; [rewrite error_close_dead in Hlive; discriminate|].
  assert (E' : w' = fst (handle_msg m msg w)) by (rewrite E; reflexivity). clear E. subst w'.
  destruct msg as [g user pres op0|g|req|id req|id label replace s|id|id|id ok|dest|dest give];
    cbv beta iota zeta delta [handle_msg] in *.
  - destruct (c_group (w_cl w m)) eqn:Hg; cbn [fst] in *; [apply own_ok_keeps; apply keeps_refl|].
    destruct (inv_nogroup _ I m Hg) as [_ [D _]].
    split; [|split].
    + exists []. rewrite app_nil_r. unfold upd_cl. simpl. rewrite Nat.eqb_refl. reflexivity.
    + intros d' Hin. unfold upd_cl in Hin. simpl in Hin. rewrite Nat.eqb_refl in Hin. simpl in Hin.
      rewrite D in Hin. destruct Hin.
    + intro X. exfalso. apply X. unfold upd_cl. simpl. rewrite Nat.eqb_refl. simpl. exact D.
  - destruct (in_group g (w_cl w m)); cbn [fst] in *; [|apply own_ok_keeps; apply keeps_refl].
    split; [|split].
    + exists []. rewrite app_nil_r. apply leave_group_queue.
    + destruct (leave_group_own m w) as [X|X].
      * intros d' Hin. rewrite X in Hin. destruct Hin.
      * rewrite X. apply downs_sub_keeps. apply keeps_refl.
    + destruct (leave_group_own m w) as [X|X]; [intro Y; congruence|rewrite X; reflexivity].
  - destruct (c_group (w_cl w m)) as [g|]; cbn [fst] in *; [|apply own_ok_keeps; apply keeps_refl].
    apply own_ok_keeps. eapply keeps_trans; [|apply keeps_enq_all_notin; apply not_in_others].
    unfold keeps, upd_cl. simpl. rewrite Nat.eqb_refl. simpl. repeat split.
  - destruct (get_down id (c_down (w_cl w m))) as [d|] eqn:Eg; [|apply own_ok_keeps; apply keeps_refl].
    destruct (c_group (w_cl w m)) as [g|]; cbn [fst] in *; [|apply own_ok_keeps; apply keeps_refl].
    destruct (get_down_in _ _ _ Eg) as [_ Hid].
    split; [|split].
    + autorewrite with sub. eauto.
    + eapply (downs_sub_replace m (down_set_req req d) d).
      * autorewrite with sub. rewrite Nat.eqb_refl. reflexivity.
      * simpl. rewrite Hid. exact Eg.
      * reflexivity.
    + intros _. autorewrite with sub. reflexivity.
  - destruct (Nat.eqb id 0); cbn [fst] in *; [apply own_ok_keeps; apply keeps_refl|].
    destruct (c_present (w_cl w m)); cbn [fst] in *; [apply own_ok_keeps; apply keeps_got_offer|].
    apply own_ok_keeps. eapply keeps_trans; [|apply keeps_send]. eapply keeps_trans; [|apply keeps_send].
    destruct (Nat.eqb replace 0); [apply keeps_refl|apply keeps_del_up_conn'].
  - destruct (Nat.eqb id 0); cbn [fst] in *; apply own_ok_keeps; [apply keeps_refl|apply keeps_del_up_conn'].
  - destruct (Nat.eqb id 0); cbn [fst] in *; [apply own_ok_keeps; apply keeps_refl|].
    split; [|split].
    + exists []. unfold close_down_conn. autorewrite with sub. rewrite app_nil_r. reflexivity.
    + apply (downs_sub_remove m id). unfold close_down_conn. autorewrite with sub. rewrite Nat.eqb_refl. reflexivity.
    + intros _. unfold close_down_conn. autorewrite with sub. reflexivity.
  - destruct (Nat.eqb id 0); cbn [fst] in *; [apply own_ok_keeps; apply keeps_refl|].
    assert (Hclose : forall msg0, own_ok m w (close_down_conn m id msg0 w)).
    { intro msg0. split; [|split].
      - exists []. unfold close_down_conn. destruct msg0; autorewrite with sub; rewrite app_nil_r; reflexivity.
      - apply (downs_sub_remove m id). unfold close_down_conn. destruct msg0; autorewrite with sub; rewrite Nat.eqb_refl; reflexivity.
      - intros _. unfold close_down_conn. destruct msg0; autorewrite with sub; reflexivity. }
    destruct (get_down id (c_down (w_cl w m))) as [d|] eqn:Eg; cbn [fst] in *; [|apply Hclose].
    destruct (ok && d_havelocal d); cbn [fst] in *; [|apply Hclose].
    destruct (get_down_in _ _ _ Eg) as [_ Hid].
    assert (H1 : own_ok m w (set_down_entry m (down_set_sig false (d_neg d) d) w)).
    { split; [|split].
      - exists []. autorewrite with sub. rewrite app_nil_r. reflexivity.
      - eapply (downs_sub_replace m (down_set_sig false (d_neg d) d) d).
        + autorewrite with sub. rewrite Nat.eqb_refl. reflexivity.
        + simpl. rewrite Hid. exact Eg.
        + reflexivity.
      - intros _. autorewrite with sub. reflexivity. }
    destruct (d_neg d) eqn:En; cbn [fst] in *; [|exact H1].
    (* the renegotiation: one more update of the same entry *)
    set (d1 := down_set_sig false true d) in *.
    set (w1 := set_down_entry m d1 w) in *.
    destruct (negotiate_own m d1 0 w1) as [NQ [NG [ND [d2 [N1 [N2 N3]]]]]].
    destruct H1 as [[l1 Q1] [S1 G1]].
    split; [|split].
    + exists l1. rewrite NQ. exact Q1.
    + intros d' Hin. rewrite N3 in Hin.
      apply in_replace_down in Hin. destruct Hin as [->|[[Hin _]|[Hin _]]].
      * exists d. destruct (get_down_in _ _ _ Eg). rewrite N1, N2. auto.
      * apply S1. exact Hin.
      * apply S1. exact Hin.
    + intros _. rewrite NG. unfold w1. autorewrite with sub. reflexivity.
  - destruct (c_group (w_cl w m)); cbn [fst] in *; [|apply own_ok_keeps; apply keeps_send].
    destruct (c_op (w_cl w m) && member_of w _ dest); cbn [fst] in *; [|apply own_ok_keeps; apply keeps_send].
    split; [|split].
    + autorewrite with sub. eauto.
    + apply downs_sub_same. autorewrite with sub. reflexivity.
    + intros _. autorewrite with sub. reflexivity.
  - destruct (c_group (w_cl w m)); cbn [fst] in *; [|apply own_ok_keeps; apply keeps_send].
    destruct (c_op (w_cl w m) && member_of w _ dest); cbn [fst] in *; [|apply own_ok_keeps; apply keeps_send].
    split; [|split].
    + autorewrite with sub. eauto.
    + apply downs_sub_same. autorewrite with sub. reflexivity.
    + intros _. autorewrite with sub. reflexivity.
Qed.

(* C07, layer 2: what a step does to its OWN actor's queue, group and down
   streams. *)
From Coq Require Import List Bool Arith PeanoNat Lia.
From Galene Require Import Model.Subscribe Proofs.SubscribeFrame Proofs.SubscribeInv
  Proofs.SubscribeStep Proofs.SubscribeHeap.
Import ListNotations.

(* the operation leaves the actor's down streams, queue, group, liveness alone *)
Definition keeps (m : nat) (w w' : world) : Prop :=
  c_down (w_cl w' m) = c_down (w_cl w m) /\ c_queue (w_cl w' m) = c_queue (w_cl w m) /\
  c_group (w_cl w' m) = c_group (w_cl w m) /\ c_dead (w_cl w' m) = c_dead (w_cl w m) /\
  c_req (w_cl w' m) = c_req (w_cl w m).

Lemma upd_cl_same : forall h f w, w_cl (upd_cl h f w) h = f (w_cl w h).
Proof. intros. unfold upd_cl. simpl. rewrite Nat.eqb_refl. reflexivity. Qed.

Lemma keeps_refl : forall m w, keeps m w w.
Proof. intros. repeat split. Qed.

Lemma keeps_trans : forall m a b c, keeps m a b -> keeps m b c -> keeps m a c.
Proof. intros m a b c [A1 [A2 [A3 [A4 A5]]]] [B1 [B2 [B3 [B4 B5]]]]. repeat split; congruence. Qed.

Lemma keeps_send : forall m c x w, keeps m w (send c x w).
Proof. intros. unfold keeps. autorewrite with sub. repeat split. Qed.

Lemma keeps_fail_up : forall m c id w, keeps m w (fail_up c id w).
Proof. intros. unfold fail_up. eapply keeps_trans; apply keeps_send. Qed.

Lemma keeps_upd_up : forall m u f w, keeps m w (upd_up u f w).
Proof. intros. repeat split. Qed.

Lemma keeps_enq_all_notin : forall m ts a w, ~ In m ts -> keeps m w (enq_all ts a w).
Proof.
  intros m ts a w Hn. unfold keeps. autorewrite with sub. repeat split; auto.
  rewrite enq_all_c_queue.
  assert (E : count_in m ts = 0).
  { destruct (count_in m ts) eqn:E; [reflexivity|]. exfalso. apply Hn. apply count_in_pos. lia. }
  rewrite E. simpl. apply app_nil_r.
Qed.

Lemma keeps_del_up_conn' : forall m id push w, keeps m w (del_up_conn' m id push w).
Proof.
  intros m id push w. unfold del_up_conn'.
  destruct (lookup id (c_up (w_cl w m))) as [u|] eqn:Hl.
  - rewrite (del_up_conn_unfold _ _ _ _ _ Hl).
    assert (H : keeps m w (remove_close m id u w)).
    { unfold keeps, remove_close. simpl. rewrite Nat.eqb_refl. simpl. repeat split. }
    destruct push; [destruct (c_group (w_cl w m))|]; try exact H.
    eapply keeps_trans; [exact H|]. apply keeps_enq_all_notin. apply not_in_others.
  - unfold del_up_conn. rewrite Hl. apply keeps_refl.
Qed.

Lemma keeps_new_up_conn : forall m id label g w, keeps m w (new_up_conn m id label g w).
Proof.
  intros. unfold keeps, new_up_conn, new_timer. simpl. rewrite Nat.eqb_refl. simpl. repeat split.
Qed.

Lemma keeps_offer_tail : forall m id replace u s w, keeps m w (offer_tail m id replace u s w).
Proof.
  intros. unfold offer_tail. set (w2 := if Nat.eqb replace 0 then w else _).
  assert (H : keeps m w w2).
  { unfold w2. destruct (Nat.eqb replace 0); [apply keeps_refl|].
    eapply keeps_trans; [apply (keeps_upd_up m u)|apply keeps_del_up_conn']. }
  destruct s; [destruct (uo_closed (w_up w2 u))|..]; (eapply keeps_trans; [exact H|]);
    try apply keeps_fail_up; apply keeps_send.
Qed.

Lemma keeps_got_offer : forall m id label replace s w, keeps m w (got_offer m id label replace s w).
Proof.
  intros. unfold got_offer.
  destruct (get_down id (c_down (w_cl w m))); [apply keeps_fail_up|].
  destruct (lookup id (c_up (w_cl w m))); [apply keeps_offer_tail|].
  destruct s; destruct (c_group (w_cl w m)); try apply keeps_fail_up;
    (eapply keeps_trans; [apply keeps_new_up_conn|apply keeps_offer_tail]).
Qed.

Lemma keeps_unpresent_fold : forall m l w, keeps m w (unpresent_fold m l w).
Proof.
  induction l as [|x r IH]; intros w; [apply keeps_refl|]. simpl.
  pose proof (keeps_del_up_conn' m (fst x) true w) as H. unfold del_up_conn' in H.
  destruct (del_up_conn m (fst x) true w); [apply IH|].
  eapply keeps_trans; [exact H|]. eapply keeps_trans; [apply keeps_fail_up|apply IH].
Qed.

(* ---- the actor's own message *)

Definition downs_sub (m : nat) (w w' : world) : Prop :=
  forall d', In d' (c_down (w_cl w' m)) ->
    exists d0, In d0 (c_down (w_cl w m)) /\ d_id d0 = d_id d' /\ d_remote d0 = d_remote d'.

Lemma downs_sub_keeps : forall m w w', keeps m w w' -> downs_sub m w w'.
Proof. intros m w w' [H _] d' Hin. rewrite H in Hin. exists d'. auto. Qed.

Lemma downs_sub_same : forall m w w', c_down (w_cl w' m) = c_down (w_cl w m) -> downs_sub m w w'.
Proof. intros m w w' H d' Hin. rewrite H in Hin. exists d'. auto. Qed.

Lemma downs_sub_remove : forall m id w w', c_down (w_cl w' m) = remove_down id (c_down (w_cl w m)) -> downs_sub m w w'.
Proof. intros m id w w' H d' Hin. rewrite H in Hin. apply in_remove_down in Hin. exists d'. tauto. Qed.

Lemma downs_sub_replace : forall m d d0 w w',
  c_down (w_cl w' m) = replace_down d (c_down (w_cl w m)) ->
  get_down (d_id d) (c_down (w_cl w m)) = Some d0 -> d_remote d0 = d_remote d ->
  downs_sub m w w'.
Proof.
  intros m d d0 w w' H Hg Hr d' Hin. rewrite H in Hin.
  destruct (get_down_in _ _ _ Hg) as [Hin0 Hid0].
  apply in_replace_down in Hin. destruct Hin as [->|[[Hin _]|[Hin _]]].
  - exists d0. auto.
  - exists d'. auto.
  - exists d'. auto.
Qed.

Lemma error_close_dead : forall c w, c_dead (w_cl (error_close c w) c) = true.
Proof. intros. unfold error_close, upd_cl. simpl. rewrite Nat.eqb_refl. reflexivity. Qed.

Definition own_ok (m : nat) (w w' : world) : Prop :=
  (exists l, c_queue (w_cl w' m) = c_queue (w_cl w m) ++ l) /\
  downs_sub m w w' /\
  (c_down (w_cl w' m) <> [] -> c_group (w_cl w' m) = c_group (w_cl w m)).

Lemma own_ok_keeps : forall m w w', keeps m w w' -> own_ok m w w'.
Proof.
  intros m w w' H. split; [|split].
  - exists []. rewrite app_nil_r. destruct H as [_ [H _]]. exact H.
  - apply downs_sub_keeps. exact H.
  - intros _. destruct H as [_ [_ [H _]]]. exact H.
Qed.

Lemma leave_group_own : forall m w,
  c_down (w_cl (leave_group m w) m) = [] \/ leave_group m w = w.
Proof.
  intros. unfold leave_group. destruct (c_group (w_cl w m)); [|right; reflexivity].
  left. unfold upd_cl. simpl. rewrite Nat.eqb_refl. reflexivity.
Qed.

Lemma leave_fold_keeps : forall m l w, keeps m w (leave_fold m l w).
Proof.
  induction l as [|x r IH]; intros w; [apply keeps_refl|]. simpl.
  eapply keeps_trans; [apply keeps_del_up_conn'|apply IH].
Qed.

Lemma leave_group_queue : forall m w, c_queue (w_cl (leave_group m w) m) = c_queue (w_cl w m).
Proof.
  intros. unfold leave_group. destruct (c_group (w_cl w m)); [|reflexivity].
  unfold upd_cl. simpl. rewrite Nat.eqb_refl. simpl.
  destruct (leave_fold_keeps m (c_up (w_cl w m)) w) as [_ [H _]]. exact H.
Qed.

Lemma negotiate_own : forall m d r w,
  c_queue (w_cl (negotiate m d r w) m) = c_queue (w_cl w m) /\
  c_group (w_cl (negotiate m d r w) m) = c_group (w_cl w m) /\
  c_dead (w_cl (negotiate m d r w) m) = c_dead (w_cl w m) /\
  exists d2, d_id d2 = d_id d /\ d_remote d2 = d_remote d /\
             c_down (w_cl (negotiate m d r w) m) = replace_down d2 (c_down (w_cl w m)).
Proof.
  intros. unfold negotiate. destruct (d_havelocal d); autorewrite with sub; rewrite ?Nat.eqb_refl.
  - repeat split. exists (down_set_sig true true d). repeat split.
  - repeat split; try apply app_nil_r. exists (down_set_sig true false d). repeat split.
Qed.

Lemma msg_own : forall w m msg,
  Inv w ->
  c_dead (w_cl (step w (OpMsg m msg)) m) = false -> own_ok m w (step w (OpMsg m msg)).
Proof.
  intros w m msg I Hlive. simpl in *.
  destruct (Nat.ltb m (w_n w) && negb (c_dead (w_cl w m))); [|apply own_ok_keeps; apply keeps_refl].
  destruct (handle_msg m msg w) as [w' e] eqn:E. unfold finish in *. simpl in *.
  destruct e; [rewrite error_close_dead in Hlive; discriminate|].
  assert (E' : w' = fst (handle_msg m msg w)) by (rewrite E; reflexivity). clear E. subst w'.
  destruct msg as [g user pres op0|g|req|id req|id label replace s|id|id|id ok|dest|dest give];
    cbv beta iota zeta delta [handle_msg] in *.
  - destruct (c_group (w_cl w m)) eqn:Hg; cbn [fst] in *; [apply own_ok_keeps; apply keeps_refl|].
    destruct (inv_nogroup _ I m Hg) as [_ [D _]].
    split; [|split].
    + exists []. rewrite app_nil_r. unfold upd_cl. simpl. rewrite Nat.eqb_refl. reflexivity.
    + intros d' Hin. unfold upd_cl in Hin. simpl in Hin. rewrite Nat.eqb_refl in Hin. simpl in Hin.
      rewrite D in Hin. destruct Hin.
    + intro X. exfalso. apply X. unfold upd_cl. simpl. rewrite Nat.eqb_refl. simpl. exact D.
  - destruct (in_group g (w_cl w m)); cbn [fst] in *; [|apply own_ok_keeps; apply keeps_refl].
    split; [|split].
    + exists []. rewrite app_nil_r. apply leave_group_queue.
    + destruct (leave_group_own m w) as [X|X].
      * intros d' Hin. rewrite X in Hin. destruct Hin.
      * rewrite X. apply downs_sub_keeps. apply keeps_refl.
    + destruct (leave_group_own m w) as [X|X]; [intro Y; congruence|rewrite X; reflexivity].
  - destruct (c_group (w_cl w m)) as [g|]; cbn [fst] in *; [|apply own_ok_keeps; apply keeps_refl].
    destruct (keeps_enq_all_notin m (others (upd_cl m (set_req req) w) g m) (AReqConns g m 0)
                (upd_cl m (set_req req) w) (not_in_others _ _ _)) as [A [B [C [D _]]]].
    split; [|split].
    + exists []. rewrite app_nil_r, B. rewrite upd_cl_same. reflexivity.
    + apply downs_sub_same. rewrite A, upd_cl_same. reflexivity.
    + intros _. rewrite C, upd_cl_same. reflexivity.
  - destruct (get_down id (c_down (w_cl w m))) as [d|] eqn:Eg; [|apply own_ok_keeps; apply keeps_refl].
    destruct (c_group (w_cl w m)) as [g|]; cbn [fst] in *; [|apply own_ok_keeps; apply keeps_refl].
    destruct (get_down_in _ _ _ Eg) as [_ Hid].
    split; [|split].
    + autorewrite with sub. eauto.
    + eapply (downs_sub_replace m (down_set_req req d) d).
      * autorewrite with sub. rewrite Nat.eqb_refl. reflexivity.
      * simpl. rewrite Hid. exact Eg.
      * reflexivity.
    + intros _. autorewrite with sub. reflexivity.
  - destruct (Nat.eqb id 0); cbn [fst] in *; [apply own_ok_keeps; apply keeps_refl|].
    destruct (c_present (w_cl w m)); cbn [fst] in *; [apply own_ok_keeps; apply keeps_got_offer|].
    apply own_ok_keeps. eapply keeps_trans; [|apply keeps_send]. eapply keeps_trans; [|apply keeps_send].
    destruct (Nat.eqb replace 0); [apply keeps_refl|apply keeps_del_up_conn'].
  - destruct (Nat.eqb id 0); cbn [fst] in *; apply own_ok_keeps; [apply keeps_refl|apply keeps_del_up_conn'].
  - destruct (Nat.eqb id 0); cbn [fst] in *; [apply own_ok_keeps; apply keeps_refl|].
    split; [|split].
    + exists []. unfold close_down_conn. autorewrite with sub. rewrite app_nil_r. reflexivity.
    + apply (downs_sub_remove m id). unfold close_down_conn. autorewrite with sub. rewrite Nat.eqb_refl. reflexivity.
    + intros _. unfold close_down_conn. autorewrite with sub. reflexivity.
  - destruct (Nat.eqb id 0); cbn [fst] in *; [apply own_ok_keeps; apply keeps_refl|].
    assert (Hclose : forall msg0, own_ok m w (close_down_conn m id msg0 w)).
    { intro msg0. split; [|split].
      - exists []. unfold close_down_conn. destruct msg0; autorewrite with sub; rewrite app_nil_r; reflexivity.
      - apply (downs_sub_remove m id). unfold close_down_conn. destruct msg0; autorewrite with sub; rewrite Nat.eqb_refl; reflexivity.
      - intros _. unfold close_down_conn. destruct msg0; autorewrite with sub; reflexivity. }
    destruct (get_down id (c_down (w_cl w m))) as [d|] eqn:Eg; cbn [fst] in *; [|apply Hclose].
    destruct (ok && d_havelocal d); cbn [fst] in *; [|apply Hclose].
    destruct (get_down_in _ _ _ Eg) as [_ Hid].
    assert (H1 : own_ok m w (set_down_entry m (down_set_sig false (d_neg d) d) w)).
    { split; [|split].
      - exists []. autorewrite with sub. rewrite app_nil_r. reflexivity.
      - eapply (downs_sub_replace m (down_set_sig false (d_neg d) d) d).
        + autorewrite with sub. rewrite Nat.eqb_refl. reflexivity.
        + simpl. rewrite Hid. exact Eg.
        + reflexivity.
      - intros _. autorewrite with sub. reflexivity. }
    destruct (d_neg d) eqn:En; cbn [fst] in *; [|exact H1].
    (* the renegotiation: one more update of the same entry *)
    set (d1 := down_set_sig false true d) in *.
    set (w1 := set_down_entry m d1 w) in *.
    destruct (negotiate_own m d1 0 w1) as [NQ [NG [ND [d2 [N1 [N2 N3]]]]]].
    destruct H1 as [[l1 Q1] [S1 G1]].
    split; [|split].
    + exists l1. rewrite NQ. exact Q1.
    + intros d' Hin. rewrite N3 in Hin.
      apply in_replace_down in Hin. destruct Hin as [->|[[Hin _]|[Hin _]]].
      * exists d. destruct (get_down_in _ _ _ Eg). rewrite N1, N2. auto.
      * apply S1. exact Hin.
      * apply S1. exact Hin.
    + intros _. rewrite NG. unfold w1. autorewrite with sub. reflexivity.
  - destruct (c_group (w_cl w m)); cbn [fst] in *; [|apply own_ok_keeps; apply keeps_send].
    destruct (c_op (w_cl w m) && member_of w _ dest); cbn [fst] in *; [|apply own_ok_keeps; apply keeps_send].
    split; [|split].
    + autorewrite with sub. eauto.
    + apply downs_sub_same. autorewrite with sub. reflexivity.
    + intros _. autorewrite with sub. reflexivity.
  - destruct (c_group (w_cl w m)); cbn [fst] in *; [|apply own_ok_keeps; apply keeps_send].
    destruct (c_op (w_cl w m) && member_of w _ dest); cbn [fst] in *; [|apply own_ok_keeps; apply keeps_send].
    split; [|split].
    + autorewrite with sub. eauto.
    + apply downs_sub_same. autorewrite with sub. reflexivity.
    + intros _. autorewrite with sub. reflexivity.
Qed.

(* ---- the actor's own queued action *)

Definition downs_from (m : nat) (w w' : world) : Prop :=
  forall d', In d' (c_down (w_cl w' m)) ->
    (exists d0, In d0 (c_down (w_cl w m)) /\ d_id d0 = d_id d' /\ d_remote d0 = d_remote d') \/
    (d_remote d' < w_nup w /\ uo_closed (w_up w (d_remote d')) = false).

Lemma close_down_conn_own : forall m id msg w,
  c_queue (w_cl (close_down_conn m id msg w) m) = c_queue (w_cl w m) /\
  c_group (w_cl (close_down_conn m id msg w) m) = c_group (w_cl w m) /\
  c_dead (w_cl (close_down_conn m id msg w) m) = c_dead (w_cl w m) /\
  c_down (w_cl (close_down_conn m id msg w) m) = remove_down id (c_down (w_cl w m)).
Proof.
  intros. unfold close_down_conn. destruct msg; autorewrite with sub; rewrite Nat.eqb_refl; repeat split.
Qed.

Lemma remove_down_comm_none : forall a b l, get_down a (remove_down b (remove_down a l)) = None.
Proof.
  intros. apply get_down_none. intro H. apply in_map_iff in H. destruct H as [d [E H]].
  apply in_remove_down in H. destruct H as [H _]. apply in_remove_down in H. tauto.
Qed.

Lemma push_own : forall m id up ts r w g,
  Inv w -> action_ok w m (APush g id up ts r) -> c_group (w_cl w m) = Some g ->
  let w' := fst (push_down_conn m id up ts r w) in
  c_queue (w_cl w' m) = c_queue (w_cl w m) /\
  c_group (w_cl w' m) = c_group (w_cl w m) /\
  c_dead (w_cl w' m) = c_dead (w_cl w m) /\
  downs_from m w w' /\
  (forall kid, kid <> 0 -> ((id = kid /\ up = None) \/ r = kid) -> get_down kid (c_down (w_cl w' m)) = None).
Proof.
  intros m id up ts r w g I Ha Hg. unfold push_down_conn.
  set (w1 := if Nat.eqb r 0 then w else del_down m r w).
  assert (Q1 : c_queue (w_cl w1 m) = c_queue (w_cl w m) /\ c_group (w_cl w1 m) = c_group (w_cl w m) /\
               c_dead (w_cl w1 m) = c_dead (w_cl w m) /\
               c_down (w_cl w1 m) = (if Nat.eqb r 0 then c_down (w_cl w m) else remove_down r (c_down (w_cl w m)))).
  { unfold w1. destruct (Nat.eqb r 0); autorewrite with sub; rewrite ?Nat.eqb_refl; repeat split. }
  destruct Q1 as [Q1 [G1 [Dd1 D1]]].
  assert (U1 : w_up w1 = w_up w) by (unfold w1; destruct (Nat.eqb r 0); reflexivity).
  assert (Sub1 : forall d, In d (c_down (w_cl w1 m)) -> In d (c_down (w_cl w m))).
  { intros d Hd. rewrite D1 in Hd. destruct (Nat.eqb r 0); [exact Hd|]. apply in_remove_down in Hd. tauto. }
  assert (Kr : r <> 0 -> get_down r (c_down (w_cl w1 m)) = None).
  { intro Hr. rewrite D1. destruct (Nat.eqb_spec r 0); [contradiction|]. apply get_down_remove_same. }
  (* a summary of a final world reached from w1 by closes and updates of existing entries *)
  set (good := fun w' : world =>
        c_queue (w_cl w' m) = c_queue (w_cl w m) /\ c_group (w_cl w' m) = c_group (w_cl w m) /\
        c_dead (w_cl w' m) = c_dead (w_cl w m) /\
        (forall d', In d' (c_down (w_cl w' m)) ->
           (exists d0, In d0 (c_down (w_cl w m)) /\ d_id d0 = d_id d' /\ d_remote d0 = d_remote d') \/
           (d_remote d' < w_nup w /\ uo_closed (w_up w (d_remote d')) = false)) /\
        (r <> 0 -> get_down r (c_down (w_cl w' m)) = None)).
  assert (Good1 : good w1).
  { unfold good. repeat split; auto. intros d' Hd. left. exists d'. auto. }
  assert (Hdef : forall w', good w' -> good (if Nat.eqb r 0 then w' else close_down_conn m r false w')).
  { intros w' [A [B [C [D E]]]]. destruct (Nat.eqb_spec r 0); [repeat split; auto|].
    destruct (close_down_conn_own m r false w') as [X1 [X2 [X3 X4]]].
    unfold good. rewrite X1, X2, X3, X4. repeat split; auto.
    - intros d' Hd. apply in_remove_down in Hd. apply D. tauto.
    - intros _. apply get_down_remove_same. }
  assert (Hclose : forall w', good w' -> good (close_down_conn m id false w') /\
             get_down id (c_down (w_cl (close_down_conn m id false w') m)) = None).
  { intros w' [A [B [C [D E]]]].
    destruct (close_down_conn_own m id false w') as [X1 [X2 [X3 X4]]]. split.
    - unfold good. rewrite X1, X2, X3, X4. repeat split; auto.
      + intros d' Hd. apply in_remove_down in Hd. apply D. tauto.
      + intro Hr. destruct (Nat.eqb_spec r id); [subst; apply get_down_remove_same|].
        rewrite get_down_remove_other; auto.
    - rewrite X4. apply get_down_remove_same. }
  assert (Final : forall w', good w' ->
            (forall kid, kid <> 0 -> (id = kid /\ up = None) -> get_down kid (c_down (w_cl w' m)) = None) ->
            c_queue (w_cl w' m) = c_queue (w_cl w m) /\ c_group (w_cl w' m) = c_group (w_cl w m) /\
            c_dead (w_cl w' m) = c_dead (w_cl w m) /\ downs_from m w w' /\
            (forall kid, kid <> 0 -> ((id = kid /\ up = None) \/ r = kid) -> get_down kid (c_down (w_cl w' m)) = None)).
  { intros w' [A [B [C [D E]]]] F. repeat split; auto.
    intros kid Hk [X|X]; [apply F; auto|]. subst kid. apply E. exact Hk. }
  (* closing the stream id, then the deferred close *)
  assert (CloseCase : forall kid, kid <> 0 -> id = kid ->
            get_down kid (c_down (w_cl (if Nat.eqb r 0 then close_down_conn m id false w1
                                         else close_down_conn m r false (close_down_conn m id false w1)) m)) = None).
  { intros kid Hk <-. destruct (Hclose w1 Good1) as [_ X].
    destruct (Nat.eqb r 0); [exact X|].
    destruct (close_down_conn_own m r false (close_down_conn m id false w1)) as [_ [_ [_ X4]]].
    rewrite X4. destruct (Nat.eqb_spec id r); [subst; apply get_down_remove_same|].
    rewrite get_down_remove_other; auto. }
  match goal with |- context [match fst ?s with _ => _ end] => destruct (fst s) as [|i0 sel] eqn:Esel end.
  - cbn [fst]. apply Final.
    + apply Hdef. apply Hclose. exact Good1.
    + intros kid Hk [X _]. apply CloseCase; auto.
  - destruct up as [u|].
    2:{ cbn [fst]. apply Final.
        + apply Hdef. apply Hclose. exact Good1.
        + intros kid Hk [X _]. apply CloseCase; auto. }
    assert (NoNone : forall w', forall kid, kid <> 0 -> id = kid /\ Some u = None -> get_down kid (c_down (w_cl w' m)) = None)
      by (intros w' kid _ [_ X]; discriminate).
    simpl in Ha. destruct Ha as [A1 [A2 [A3 [A4 [A5 A6]]]]].
    unfold add_down_conn. rewrite U1.
    destruct (lookup (uo_id (w_up w u)) (c_up (w_cl w1 m))); [cbn [fst]; apply Final; [apply Hdef; exact Good1|apply NoNone]|].
    destruct (get_down (uo_id (w_up w u)) (c_down (w_cl w1 m))) as [d0|] eqn:Eg.
    + rewrite Eg. destruct (replace_tracks d0 _ _) as [changed d'] eqn:Er.
      destruct (replace_tracks_same _ _ _ _ _ Er) as [R1 [R2 R3]].
      destruct (get_down_in _ _ _ Eg) as [Hin0 Hid0].
      assert (Good3 : good (set_down_entry m d' w1)).
      { destruct Good1 as [A [B [C [D E]]]]. unfold good. autorewrite with sub. rewrite Nat.eqb_refl.
        repeat split; auto.
        - intros x Hx. apply in_replace_down in Hx. destruct Hx as [->|[[Hx _]|[Hx _]]].
          + left. exists d0. repeat split; auto.
          + apply D. exact Hx.
          + apply D. exact Hx.
        - intro Hr. destruct (Nat.eqb_spec r (d_id d')).
          + (* the entry with id r was deleted: d0 cannot have that id *)
            exfalso. rewrite R2, Hid0 in e. rewrite <- e in Eg. rewrite (Kr Hr) in Eg. discriminate.
          + rewrite get_down_replace_other; auto. }
      destruct changed; cbn [fst]; [|apply Final; [apply Hdef; exact Good3|apply NoNone]].
      apply Final; [|apply NoNone].
      destruct (negotiate_own m d' r (set_down_entry m d' w1)) as [NQ [NG [ND [d2 [N1 [N2 N3]]]]]].
      destruct Good3 as [A [B [C [D E]]]]. unfold good. rewrite NQ, NG, ND, N3. repeat split; auto.
      * intros x Hx. apply in_replace_down in Hx. destruct Hx as [->|[[Hx _]|[Hx _]]].
        -- left. exists d0. repeat split; auto; congruence.
        -- apply D. exact Hx.
        -- apply D. exact Hx.
      * intro Hr. destruct (Nat.eqb_spec r (d_id d2)).
        -- exfalso. rewrite N1, R2, Hid0 in e. rewrite <- e in Eg. rewrite (Kr Hr) in Eg. discriminate.
        -- rewrite get_down_replace_other; auto.
    + destruct (uo_closed (w_up w u)) eqn:Ec; [cbn [fst]; apply Final; [apply Hdef; exact Good1|apply NoNone]|].
      set (dn := mkDown (uo_id (w_up w u)) u None [] false false false).
      set (w2 := upd_cl m (fun c => set_down (c_down c ++ [dn]) c) w1).
      assert (Eg2 : get_down (uo_id (w_up w u)) (c_down (w_cl w2 m)) = Some dn).
      { unfold w2, upd_cl. simpl. rewrite Nat.eqb_refl. simpl. rewrite get_down_app, Eg. simpl.
        rewrite Nat.eqb_refl. reflexivity. }
      (* the new stream cannot have the id of the replaced one: that one has ended *)
      assert (Hnr : r <> 0 -> uo_id (w_up w u) <> r).
      { intros Hr E. destruct (A6 Hr) as [v [Hv [Hvid Hvc]]].
        assert (v = u) by (apply (inv_ids _ I); auto; congruence). subst v. congruence. }
      assert (Good2 : good w2).
      { destruct Good1 as [A [B [C [D E]]]]. unfold good, w2, upd_cl. simpl. rewrite Nat.eqb_refl. simpl.
        repeat split; auto.
        - intros x Hx. apply in_app_iff in Hx. destruct Hx as [Hx|[<-|[]]]; [apply D; exact Hx|].
          right. simpl. split; [exact A1|exact Ec].
        - intro Hr. rewrite get_down_app, (E Hr). simpl.
          destruct (Nat.eqb_spec (uo_id (w_up w u)) r); [exfalso; eapply Hnr; eauto|reflexivity]. }
      rewrite Eg2. destruct (replace_tracks dn _ _) as [changed d'] eqn:Er.
      destruct (replace_tracks_same _ _ _ _ _ Er) as [R1 [R2 R3]].
      assert (Good3 : good (set_down_entry m d' w2)).
      { destruct Good2 as [A [B [C [D E]]]]. unfold good. autorewrite with sub. rewrite Nat.eqb_refl.
        repeat split; auto.
        - intros x Hx. apply in_replace_down in Hx. destruct Hx as [->|[[Hx _]|[Hx _]]].
          + right. rewrite R1. simpl. split; [exact A1|exact Ec].
          + apply D. exact Hx.
          + apply D. exact Hx.
        - intro Hr. rewrite get_down_replace_other; auto. rewrite R2. simpl. intro X. eapply Hnr; eauto. }
      destruct changed; cbn [fst]; [|apply Final; [apply Hdef; exact Good3|apply NoNone]].
      apply Final; [|apply NoNone].
      destruct (negotiate_own m d' r (set_down_entry m d' w2)) as [NQ [NG [ND [d2 [N1 [N2 N3]]]]]].
      destruct Good3 as [A [B [C [D E]]]]. unfold good. rewrite NQ, NG, ND, N3. repeat split; auto.
      * intros x Hx. apply in_replace_down in Hx. destruct Hx as [->|[[Hx _]|[Hx _]]].
        -- right. rewrite N2, R1. simpl. split; [exact A1|exact Ec].
        -- apply D. exact Hx.
        -- apply D. exact Hx.
      * intro Hr. rewrite get_down_replace_other; auto. rewrite N1, R2. simpl. intro X. eapply Hnr; eauto.
Qed.

Definition kills (a : action) (g id : nat) : Prop :=
  exists id' up ts r, a = APush g id' up ts r /\ ((id' = id /\ up = None) \/ r = id).

Lemma pump_own : forall w m a q,
  Inv w -> c_queue (w_cl w m) = a :: q -> m < w_n w -> c_dead (w_cl w m) = false ->
  c_dead (w_cl (step w (OpPump m)) m) = false ->
  (exists l, c_queue (w_cl (step w (OpPump m)) m) = q ++ l) /\
  c_group (w_cl (step w (OpPump m)) m) = c_group (w_cl w m) /\
  downs_from m w (step w (OpPump m)) /\
  (forall g kid, kid <> 0 -> kills a g kid -> c_group (w_cl w m) = Some g ->
                 get_down kid (c_down (w_cl (step w (OpPump m)) m)) = None).
Proof.
  intros w m a q I Eq Hm Hlive Hlive'. simpl in *.
  assert (E : Nat.ltb m (w_n w) && negb (c_dead (w_cl w m)) = true).
  { apply andb_true_intro. split; [apply Nat.ltb_lt; exact Hm|rewrite Hlive; reflexivity]. }
  rewrite E, Eq in *.
  set (w0 := upd_cl m (set_queue q) w) in *.
  assert (I0 : Inv w0).
  { apply Inv_pop; [exact I|]. intros x Hx. rewrite Eq. right. exact Hx. }
  assert (Ha0 : action_ok w0 m a).
  { eapply (action_ok_same_heap w); [reflexivity|reflexivity|].
    apply (inv_queue _ I). rewrite Eq. left. reflexivity. }
  assert (F0 : c_queue (w_cl w0 m) = q /\ c_group (w_cl w0 m) = c_group (w_cl w m) /\
               c_down (w_cl w0 m) = c_down (w_cl w m) /\ c_dead (w_cl w0 m) = c_dead (w_cl w m)).
  { unfold w0, upd_cl. simpl. rewrite Nat.eqb_refl. simpl. repeat split. }
  destruct F0 as [Q0 [G0 [D0 Dd0]]].
  destruct (handle_action m a w0) as [w' e] eqn:Eh. unfold finish in *. cbn [fst snd] in *.
  destruct e; [rewrite error_close_dead in Hlive'; discriminate|].
  assert (E' : w' = fst (handle_action m a w0)) by (rewrite Eh; reflexivity). clear Eh. subst w'.
  assert (Same : forall w1, c_queue (w_cl w1 m) = q ++ [] -> c_group (w_cl w1 m) = c_group (w_cl w0 m) ->
            c_down (w_cl w1 m) = c_down (w_cl w0 m) -> w_up w1 = w_up w ->
            (exists l, c_queue (w_cl w1 m) = q ++ l) /\ c_group (w_cl w1 m) = c_group (w_cl w m) /\
            downs_from m w w1).
  { intros w1 A B C U. split; [eauto|]. split; [congruence|].
    intros d' Hd. left. exists d'. rewrite C, D0 in Hd. auto. }
  destruct a as [g id up ts r|g t id|g give| |]; cbv beta iota zeta delta [handle_action] in *.
  - destruct (in_group g (w_cl w0 m)) eqn:Hg; cbn [fst] in *.
    + apply in_group_eq in Hg.
      destruct (push_own m id up ts r w0 g I0 Ha0 Hg) as [A [B [C [D K]]]].
      split; [exists []; rewrite app_nil_r; congruence|]. split; [congruence|]. split.
      * intros d' Hd. destruct (D d' Hd) as [[d0 [X Y]]|X]; [left; exists d0; rewrite <- D0; auto|right; exact X].
      * intros g' kid Hk [id' [up' [ts' [r' [Ea Hc]]]]] Hg'.
        injection Ea as E1 E2 E3 E4 E5. subst g' id' up' ts' r'. apply K; auto.
    + destruct (Same w0) as [A [B C]]; auto; [rewrite app_nil_r; exact Q0|].
      repeat split; auto.
      intros g' kid Hk [id' [up' [ts' [r' [Ea Hc]]]]] Hg'.
      injection Ea as E1 E2 E3 E4 E5. subst g' id' up' ts' r'.
      exfalso. rewrite <- G0 in Hg'. apply in_group_eq in Hg'. congruence.
  - assert (Hk : forall g' kid, kills (AReqConns g t id) g' kid -> False).
    { intros g' kid [id' [up' [ts' [r' [Ea _]]]]]. discriminate. }
    destruct (in_group g (w_cl w0 m)); cbn [fst] in *.
    + fold (reqconns_fold g t id (c_up (w_cl w0 m)) w0) in *.
      destruct (passive_reqconns_fold m g t id (c_up (w_cl w0 m)) w0) as [Hc [l Hq]].
      destruct (core_fields _ _ Hc) as [G [_ [_ [_ [_ [_ [D _]]]]]]].
      split; [exists l; rewrite Hq, Q0; reflexivity|]. split; [congruence|]. split.
      * intros d' Hd. left. exists d'. rewrite D, D0 in Hd. auto.
      * intros g' kid _ K _. exfalso. eapply Hk; eauto.
    + destruct (Same w0) as [A [B C]]; auto; [rewrite app_nil_r; exact Q0|].
      repeat split; auto. intros g' kid _ K _. exfalso. eapply Hk; eauto.
  - assert (Hk : forall g' kid, kills (AChangePerm g give) g' kid -> False).
    { intros g' kid [id' [up' [ts' [r' [Ea _]]]]]. discriminate. }
    destruct (in_group g (w_cl w0 m)); cbn [fst] in *.
    + split; [|split; [|split]].
      * exists [APermsChanged]. autorewrite with sub. rewrite Nat.eqb_refl.
        rewrite upd_cl_same. cbn [c_queue set_present]. rewrite Q0. reflexivity.
      * autorewrite with sub. rewrite upd_cl_same. cbn [c_group set_present]. exact G0.
      * intros d' Hd. left. exists d'. autorewrite with sub in Hd. rewrite upd_cl_same in Hd.
        cbn [c_down set_present] in Hd. rewrite D0 in Hd. auto.
      * intros g' kid _ K _. exfalso. eapply Hk; eauto.
    + destruct (Same w0) as [A [B C]]; auto; [rewrite app_nil_r; exact Q0|].
      repeat split; auto. intros g' kid _ K _. exfalso. eapply Hk; eauto.
  - assert (Hk : forall g' kid, kills APermsChanged g' kid -> False).
    { intros g' kid [id' [up' [ts' [r' [Ea _]]]]]. discriminate. }
    assert (Keep : forall w1, keeps m w0 w1 ->
              (exists l, c_queue (w_cl w1 m) = q ++ l) /\ c_group (w_cl w1 m) = c_group (w_cl w m) /\
              downs_from m w w1 /\
              (forall g kid, kid <> 0 -> kills APermsChanged g kid -> c_group (w_cl w m) = Some g ->
                 get_down kid (c_down (w_cl w1 m)) = None)).
    { intros w1 [A [B [C D]]]. split; [exists []; rewrite app_nil_r; congruence|].
      split; [congruence|]. split.
      - intros d' Hd. left. exists d'. rewrite A, D0 in Hd. auto.
      - intros g' kid _ K _. exfalso. eapply Hk; eauto. }
    destruct (c_group (w_cl w0 m)); cbn [fst] in *; [|apply Keep; apply keeps_refl].
    destruct (c_present (w_cl w0 m)); cbn [fst] in *; [apply Keep; apply keeps_refl|].
    apply Keep. apply keeps_unpresent_fold.
  - assert (Hk : forall g' kid, kills AKick g' kid -> False).
    { intros g' kid [id' [up' [ts' [r' [Ea _]]]]]. discriminate. }
    destruct (Same w0) as [A [B C]]; auto; [rewrite app_nil_r; exact Q0|].
    repeat split; auto. intros g' kid _ K _. exfalso. eapply Hk; eauto.
Qed.

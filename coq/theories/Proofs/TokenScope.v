(* C09, group scope: characterisation of Stateful.match and of matchGroup by
   string equations, and their component form. *)
From Coq Require Import ZArith List Bool String Ascii Lia.
From Galene Require Import Model.Token.
Import ListNotations.
Open Scope string_scope.

(* ------------------------------------------------------------------ *)
(* strings                                                             *)

Lemma append_nil_r : forall s, s ++ "" = s.
Proof. induction s as [|c s IH]; cbn; [reflexivity | now rewrite IH]. Qed.

Lemma append_assoc : forall a b c, (a ++ b) ++ c = a ++ (b ++ c).
Proof. induction a as [|x a IH]; intros; cbn; [reflexivity | now rewrite IH]. Qed.

Lemma append_inv_head : forall p a b, p ++ a = p ++ b -> a = b.
Proof.
  induction p as [|x p IH]; intros a b H; cbn in H; [exact H|].
  injection H as H. now apply IH.
Qed.

Lemma append_eq_nil : forall a b, a ++ b = "" -> a = "" /\ b = "".
Proof. destruct a; cbn; intros b H; [now split | discriminate]. Qed.

Definition los := list_ascii_of_string.
Definition sol := string_of_list_ascii.

Lemma los_app : forall a b, los (a ++ b) = (los a ++ los b)%list.
Proof. induction a as [|x a IH]; intros; cbn; [reflexivity | now rewrite IH]. Qed.

Lemma los_inj : forall a b, los a = los b -> a = b.
Proof.
  intros a b H. rewrite <- (string_of_list_ascii_of_string a),
    <- (string_of_list_ascii_of_string b). unfold los in H. now rewrite H.
Qed.

Lemma sol_los : forall s, sol (los s) = s.
Proof. exact string_of_list_ascii_of_string. Qed.

Lemma los_sol : forall l, los (sol l) = l.
Proof. exact list_ascii_of_string_of_list_ascii. Qed.

Lemma append_inv_tail : forall a b c, a ++ c = b ++ c -> a = b.
Proof.
  intros a b c H. apply los_inj. apply (f_equal los) in H.
  rewrite !los_app in H. now apply app_inv_tail in H.
Qed.

(* a non-empty string has a last character *)
Lemma last_char : forall q, q <> "" -> exists q' c, q = q' ++ String c "".
Proof.
  intros q Hq. destruct (exists_last (l := los q)) as (l' & c & Hl).
  - intro H. apply Hq. apply los_inj. exact H.
  - exists (sol l'), c. apply los_inj. rewrite los_app, los_sol. exact Hl.
Qed.

(* if a ++ q ends with c and q is not empty then q ends with c *)
Lemma ends_with_app : forall a q x c, q <> "" ->
  a ++ q = x ++ String c "" -> exists q', q = q' ++ String c "".
Proof.
  intros a q x c Hq H. destruct (last_char q Hq) as (q' & d & ->).
  exists q'. apply (f_equal los) in H. rewrite !los_app in H. cbn in H.
  rewrite app_assoc in H. apply app_inj_tail in H. destruct H as (_ & ->).
  reflexivity.
Qed.

Lemma ascii_eqb_spec : forall a b, Ascii.eqb a b = true <-> a = b.
Proof. exact Ascii.eqb_eq. Qed.

Lemma has_prefix_spec : forall p s, has_prefix s p = true <-> exists r, s = p ++ r.
Proof.
  induction p as [|a p IH]; intros s; cbn.
  - split; [intros _; now exists s | reflexivity].
  - destruct s as [|b s].
    + split; [discriminate | intros (r & H); discriminate].
    + rewrite andb_true_iff, Ascii.eqb_eq, IH. split.
      * intros (-> & r & ->). now exists r.
      * intros (r & H). injection H as -> ->. split; [reflexivity | now exists r].
Qed.

Lemma has_suffix_spec : forall s suf, has_suffix s suf = true <-> exists p, s = p ++ suf.
Proof.
  induction s as [|c s IH]; intros suf; cbn [has_suffix].
  - destruct (String.eqb "" suf) eqn:E.
    + apply String.eqb_eq in E. subst suf. split; [intros _; now exists "" | reflexivity].
    + split; [discriminate|]. intros (p & H). symmetry in H.
      apply append_eq_nil in H. destruct H as (_ & ->). discriminate.
  - destruct (String.eqb (String c s) suf) eqn:E.
    + apply String.eqb_eq in E. split; [intros _; exists ""; now rewrite <- E | reflexivity].
    + rewrite IH. split.
      * intros (p & ->). now exists (String c p).
      * intros (p & H). destruct p as [|d p]; cbn in H.
        -- apply String.eqb_neq in E. now elim E.
        -- injection H as _ ->. now exists p.
Qed.

(* ------------------------------------------------------------------ *)
(* Stateful.match                                                      *)

Definition covers (tg : string) (sub : bool) (g : string) : Prop :=
  g = tg \/ (sub = true /\ (tg = "" \/ exists rest, g = tg ++ "/" ++ rest)).

Lemma stateful_match_nonroot : forall t g, g <> "" ->
  (stateful_match t g = true <-> covers (st_group t) (st_sub t) g).
Proof.
  intros t g Hg. unfold stateful_match, covers.
  destruct (String.eqb g "") eqn:E0; [apply String.eqb_eq in E0; contradiction|].
  destruct (String.eqb g (st_group t)) eqn:E1.
  - apply String.eqb_eq in E1. split; [now left | reflexivity].
  - apply String.eqb_neq in E1. destruct (st_sub t).
    + destruct (String.eqb (st_group t) "") eqn:E2.
      * apply String.eqb_eq in E2. split; [intros _; right; split; [reflexivity | now left] | reflexivity].
      * apply String.eqb_neq in E2. rewrite has_prefix_spec. split.
        -- intros (r & H). right. split; [reflexivity|]. right. exists r.
           now rewrite H, append_assoc.
        -- intros [H | (_ & [H | (r & H)])]; [contradiction | contradiction |].
           exists r. now rewrite H, append_assoc.
    + split; [discriminate|]. intros [H | (H & _)]; [contradiction | discriminate].
Qed.

Lemma stateful_match_root : forall t,
  stateful_match t "" = true <-> st_sub t = true /\ st_group t = "".
Proof.
  intros t. unfold stateful_match. cbn [String.eqb].
  rewrite andb_true_iff, String.eqb_eq. reflexivity.
Qed.

(* soundness for every requested group, root included *)
Lemma stateful_match_sound : forall t g,
  stateful_match t g = true -> covers (st_group t) (st_sub t) g.
Proof.
  intros t g H. destruct (string_dec g "") as [-> | Hg].
  - apply stateful_match_root in H. destruct H as (Hs & Ht). left. now rewrite Ht.
  - now apply stateful_match_nonroot.
Qed.

(* ------------------------------------------------------------------ *)
(* matchGroup                                                          *)

(* the audience path names token group tg: "/group/<tg>/"; the root token's
   path is "/group/" *)
Definition covers_path (p : string) (incl : bool) (g : string) : Prop :=
  p = "/group/" ++ g ++ "/" \/
  (incl = true /\ (p = "/group/" \/
                   exists tg rest, p = "/group/" ++ tg ++ "/" /\ g = tg ++ "/" ++ rest)).

Lemma match_group_spec : forall p g incl,
  match_group p g incl = true <-> covers_path p incl g.
Proof.
  intros p g incl. unfold match_group, covers_path. destruct incl; cbn [negb].
  - destruct (has_prefix p "/group/") eqn:E1; cbn [negb].
    + destruct (has_suffix p "/") eqn:E2; cbn [negb].
      * apply has_prefix_spec in E1. destruct E1 as (q & ->).
        apply has_suffix_spec in E2. destruct E2 as (x & E2).
        rewrite has_prefix_spec. split.
        -- intros (r & H). rewrite append_assoc in H. apply append_inv_head in H.
           (* g ++ "/" = q ++ r *)
           destruct (string_dec q "") as [-> | Hq].
           { right. split; [reflexivity|]. left. now rewrite append_nil_r. }
           destruct (ends_with_app _ _ _ _ Hq E2) as (tg & ->).
           destruct (string_dec r "") as [-> | Hr].
           { left. rewrite append_nil_r in H. now rewrite H. }
           assert (Hr' : exists rest, r = rest ++ "/").
           { apply (ends_with_app (tg ++ "/") r g "/"%char Hr). now rewrite <- H. }
           destruct Hr' as (rest & ->). right. split; [reflexivity|]. right.
           exists tg, rest. split; [reflexivity|].
           apply (append_inv_tail _ _ "/"). rewrite H. now rewrite !append_assoc.
        -- intros [H | (_ & [H | (tg & rest & H & ->)])].
           ++ exists "". now rewrite append_nil_r.
           ++ exists (g ++ "/").
              assert (q = "") by (apply (append_inv_head "/group/"); now rewrite append_nil_r).
              subst q. reflexivity.
           ++ exists (rest ++ "/"). rewrite H. now rewrite !append_assoc.
      * split; [discriminate|].
        assert (Hn : forall y, p <> y ++ "/").
        { intros y Hy. assert (has_suffix p "/" = true) by (apply has_suffix_spec; now exists y).
          congruence. }
        intros HH; exfalso. destruct HH as [H | (_ & [H | (tg & rest & H & _)])].
        -- apply (Hn ("/group/" ++ g)). now rewrite append_assoc.
        -- apply (Hn "/group"). exact H.
        -- apply (Hn ("/group/" ++ tg)). now rewrite append_assoc.
    + split; [discriminate|].
      assert (Hn : forall y, p <> "/group/" ++ y).
      { intros y Hy. assert (has_prefix p "/group/" = true) by (apply has_prefix_spec; now exists y).
        congruence. }
      intros HH; exfalso. destruct HH as [H | (_ & [H | (tg & rest & H & _)])].
      * now apply Hn in H.
      * apply (Hn ""). exact H.
      * now apply Hn in H.
  - rewrite String.eqb_eq. split; [now left|].
    intros [H | (H & _)]; [exact H | discriminate].
Qed.

(* a token whose audience path is "/group/<tg>/" behaves as the stateful
   token for tg *)
Lemma match_group_named : forall tg g incl,
  match_group ("/group/" ++ tg ++ "/") g incl = true <->
  g = tg \/ (incl = true /\ exists rest, g = tg ++ "/" ++ rest).
Proof.
  intros tg g incl. rewrite match_group_spec. unfold covers_path. split.
  - intros [H | (Hi & [H | (tg' & rest & H & ->)])].
    + left. apply append_inv_head in H. now apply append_inv_tail in H.
    + exfalso. rewrite <- (append_nil_r "/group/") in H at 2.
      apply append_inv_head in H. destruct tg; discriminate.
    + apply append_inv_head in H. apply append_inv_tail in H. subst tg'.
      right. split; [exact Hi | now exists rest].
  - intros [-> | (Hi & rest & ->)]; [now left|].
    right. split; [exact Hi|]. right. now exists tg, rest.
Qed.

Lemma match_group_root : forall g,
  match_group "/group/" g true = true.
Proof.
  intros g. apply match_group_spec. right. split; [reflexivity | now left].
Qed.

(* ------------------------------------------------------------------ *)
(* path components                                                     *)

Fixpoint join (l : list string) : string :=
  match l with
  | [] => ""
  | [x] => x
  | x :: r => x ++ "/" ++ join r
  end.

Lemma components_nonempty : forall s, components s <> [].
Proof.
  induction s as [|c s IH]; cbn; [discriminate|].
  destruct (Ascii.eqb c "/"); [discriminate|].
  destruct (components s); discriminate.
Qed.

Lemma components_app : forall a b,
  components (a ++ "/" ++ b) = (components a ++ components b)%list.
Proof.
  induction a as [|c a IH]; intros b.
  - reflexivity.
  - change (String c a ++ "/" ++ b) with (String c (a ++ "/" ++ b)).
    cbn [components]. rewrite IH. destruct (Ascii.eqb c "/"); [reflexivity|].
    destruct (components a) as [|x r] eqn:E; [now apply components_nonempty in E|].
    reflexivity.
Qed.

Lemma join_components : forall s, join (components s) = s.
Proof.
  induction s as [|c s IH]; [reflexivity|]. cbn [components].
  destruct (Ascii.eqb c "/") eqn:E.
  - apply Ascii.eqb_eq in E. subst c.
    destruct (components s) as [|x r] eqn:Ec; [now apply components_nonempty in Ec|].
    change (join ("" :: x :: r)) with ("" ++ "/" ++ join (x :: r)). now rewrite IH.
  - destruct (components s) as [|x r] eqn:Ec; [now apply components_nonempty in Ec|].
    destruct r as [|y r]; cbn in IH |- *; now rewrite <- IH.
Qed.

Lemma components_inj : forall a b, components a = components b -> a = b.
Proof. intros a b H. rewrite <- (join_components a), <- (join_components b). now rewrite H. Qed.

Lemma join_app : forall l1 l2, l1 <> [] -> l2 <> [] ->
  join (l1 ++ l2) = join l1 ++ "/" ++ join l2.
Proof.
  induction l1 as [|x l1 IH]; intros l2 H1 H2; [contradiction|].
  destruct l1 as [|y l1].
  - destruct l2 as [|z l2]; [contradiction | reflexivity].
  - change (join ((x :: y :: l1) ++ l2)) with (x ++ "/" ++ join ((y :: l1) ++ l2)).
    rewrite IH by (assumption || discriminate).
    change (join (x :: y :: l1)) with (x ++ "/" ++ join (y :: l1)).
    now rewrite !append_assoc.
Qed.

(* "g = tg or g = tg/rest" is "the components of tg are a prefix of those of g" *)
Lemma below_components : forall tg g,
  (exists rest, g = tg ++ "/" ++ rest) <->
  (exists l, l <> [] /\ components g = (components tg ++ l)%list).
Proof.
  intros tg g. split.
  - intros (rest & ->). exists (components rest). split;
      [apply components_nonempty | apply components_app].
  - intros (l & Hl & H). exists (join l).
    rewrite <- (join_components g), H, join_app by (assumption || apply components_nonempty).
    now rewrite join_components.
Qed.

Definition covers_components (tg : string) (sub : bool) (g : string) : Prop :=
  components g = components tg \/
  (sub = true /\ exists l, l <> [] /\ components g = (components tg ++ l)%list).

Lemma stateful_match_components : forall t g, g <> "" -> st_group t <> "" ->
  (stateful_match t g = true <-> covers_components (st_group t) (st_sub t) g).
Proof.
  intros t g Hg Ht. rewrite (stateful_match_nonroot t g Hg). unfold covers, covers_components.
  split.
  - intros [-> | (Hs & [H | H])]; [now left | contradiction |].
    right. split; [exact Hs | now apply below_components].
  - intros [H | (Hs & H)]; [left; now apply components_inj|].
    right. split; [exact Hs|]. right. now apply below_components.
Qed.

Lemma match_group_components : forall tg g incl,
  match_group ("/group/" ++ tg ++ "/") g incl = true <-> covers_components tg incl g.
Proof.
  intros tg g incl. rewrite match_group_named. unfold covers_components. split.
  - intros [-> | (Hi & H)]; [now left|]. right. split; [exact Hi | now apply below_components].
  - intros [H | (Hi & H)]; [left; now apply components_inj|].
    right. split; [exact Hi | now apply below_components].
Qed.

(* single-component names: a token for x never covers y <> x, whatever the
   subgroup flag ("a" never covers "ab") *)
Definition single (s : string) : Prop := components s = [s].

Lemma single_not_covered : forall x y sub, single x -> single y -> x <> y ->
  ~ covers_components x sub y.
Proof.
  intros x y sub Hx Hy Hne [H | (_ & l & Hl & H)]; rewrite Hx, Hy in H.
  - injection H as H. now symmetry in H.
  - destruct l; [contradiction | discriminate].
Qed.

Lemma single_never_covers : forall t y, single (st_group t) -> single y ->
  st_group t <> "" -> y <> "" -> st_group t <> y ->
  stateful_match t y = false /\
  forall incl, match_group ("/group/" ++ st_group t ++ "/") y incl = false.
Proof.
  intros t y Hx Hy Hx0 Hy0 Hne. split.
  - destruct (stateful_match t y) eqn:E; [|reflexivity].
    apply (stateful_match_components t y Hy0 Hx0) in E.
    now apply single_not_covered in E.
  - intros incl. destruct (match_group _ y incl) eqn:E; [|reflexivity].
    apply match_group_components in E. now apply single_not_covered in E.
Qed.

(* C14, part 7: recording on/off, setdata, new connections, new groups and
   reading an outbox preserve the invariant. *)
From Coq Require Import ZArith List Bool String Arith Lia.
From Galene Require Import Generated.Guards Model.Signal Model.SignalUsers
  Proofs.SignalFrame Proofs.SignalSafe Proofs.SignalUsersBase Proofs.SignalUsersFrame
  Proofs.SignalUsersInv Proofs.SignalUsersAnnounce Proofs.SignalUsersLeave.
Import ListNotations.
Open Scope string_scope.
Open Scope list_scope.

(* ------------------------------------------------------------------ *)
(* The recorder                                                        *)

Lemma members_set_recording : forall w g b g2,
  members (upd_group w g (fun gr => gset_recording gr b)) g2 = members w g2.
Proof.
  intros. rewrite members_upd_group by reflexivity.
  destruct (String.eqb g2 g) eqn:E; [|reflexivity]. apply eqb_true in E. subst g2.
  unfold members. destruct (find_group w g); reflexivity.
Qed.

Lemma recording_set_recording : forall w g b g2,
  recording (upd_group w g (fun gr => gset_recording gr b)) g2 =
  if String.eqb g2 g then match find_group w g with Some _ => b | None => false end
  else recording w g2.
Proof.
  intros. unfold recording, find_group, upd_group. cbn [w_groups wset_groups].
  rewrite find_group_in_map by reflexivity.
  destruct (String.eqb g2 g); [|reflexivity].
  destruct (find_group_in (w_groups w) g); reflexivity.
Qed.

Lemma truth_no_placeholder : forall w g, Sinv w -> get_member w g rec_id = None.
Proof.
  intros w g HS. rewrite get_member_unfold. apply find_none. intros y Hy.
  unfold has_id. destruct (get_client w y) as [cy|] eqn:Ey; [|reflexivity].
  apply String.eqb_neq. apply (s_noq w HS y cy Ey).
Qed.

Lemma inv_set_recording : forall w s ph pend g b,
  Inv_p w s ph pend None ->
  Inv_p (upd_group w g (fun gr => gset_recording gr b)) s ph pend (Some (g, rec_id)).
Proof.
  intros w s ph pend g b [HS HV].
  set (w' := upd_group w g (fun gr => gset_recording gr b)).
  assert (Hm : forall g2, members w' g2 = members w g2) by (intros; apply members_set_recording).
  assert (HS' : Sinv w').
  { eapply sinv_ext; [exact HS | apply names_upd_group; reflexivity | exact Hm | reflexivity]. }
  assert (Ht : forall g2 id, (g2 <> g \/ id <> rec_id) -> truth w' g2 id = truth w g2 id).
  { intros g2 id Hne. unfold truth. rewrite !get_member_unfold, Hm.
    assert (Hid : forall x, has_id w' id x = has_id w id x) by reflexivity.
    rewrite (find_ext_eq _ _ _ (members w g2) Hid).
    destruct (find (has_id w id) (members w g2)); [reflexivity|].
    unfold w'. rewrite recording_set_recording.
    destruct (String.eqb g2 g) eqn:E; [|reflexivity].
    apply eqb_true in E. destruct Hne as [Hne | Hne]; [congruence|].
    apply String.eqb_neq in Hne. rewrite Hne, !andb_false_r. reflexivity. }
  split; [exact HS'|]. constructor.
  - apply (v_seen _ _ _ _ _ HV).
  - apply (v_nm _ _ _ _ _ HV).
  - intros h c g2 id Hc Hg.
    destruct (string_dec g2 g) as [->|Hg2]; [destruct (string_dec id rec_id) as [->|Hid]|].
    + right. right. reflexivity.
    + rewrite Ht by (right; exact Hid).
      destruct (v_view _ _ _ _ _ HV h c g id Hc Hg) as [H | [H | H]]; [left; exact H | | discriminate H].
      right. left. destruct H as (x & cx & H1 & H2 & H3 & H4). exists x, cx. rewrite Hm. auto.
    + rewrite Ht by (left; exact Hg2).
      destruct (v_view _ _ _ _ _ HV h c g2 id Hc Hg) as [H | [H | H]]; [left; exact H | | discriminate H].
      right. left. destruct H as (x & cx & H1 & H2 & H3 & H4). exists x, cx. rewrite Hm. auto.
Qed.

(* groupaction record: the recorder joins and is announced *)
Lemma inv_record : forall w s ph pend g gr,
  Inv_p w s ph pend None -> find_group w g = Some gr ->
  Inv_p (let w1 := upd_group w g (fun gr => gset_recording gr true) in
         push_client_all w1 g (members w1 g) "add" "?" "RECORDING" ["system"] []) s ph pend None.
Proof.
  intros w s ph pend g gr HI Hgr. cbv zeta.
  pose proof (inv_set_recording w s ph pend g true HI) as H1.
  eapply inv_announce; [exact H1 | intros; apply key_step_add |].
  unfold truth. fold rec_id. rewrite (truth_no_placeholder _ g (proj1 H1)).
  rewrite recording_set_recording, String.eqb_refl, Hgr, String.eqb_refl. reflexivity.
Qed.

(* groupaction unrecord *)
Lemma inv_unrecord : forall w s ph pend g gr,
  Inv_p w s ph pend None -> find_group w g = Some gr ->
  Inv_p (let w1 := upd_group w g (fun gr => gset_recording gr false) in
         push_client_all w1 g (members w1 g) "delete" "?" "RECORDING" [] []) s ph pend None.
Proof.
  intros w s ph pend g gr HI Hgr. cbv zeta.
  pose proof (inv_set_recording w s ph pend g false HI) as H1.
  eapply inv_announce; [exact H1 | intros; apply key_step_delete |].
  unfold truth. fold rec_id. rewrite (truth_no_placeholder _ g (proj1 H1)).
  rewrite recording_set_recording, String.eqb_refl, Hgr. reflexivity.
Qed.

(* ------------------------------------------------------------------ *)
(* useraction setdata: the data change, then the announcement          *)

Lemma inv_setdata : forall w s ph pend h c g d,
  Inv_p w s ph pend None -> get_client w h = Some c -> c_group c = Some g ->
  Inv_p (let w1 := upd w h (fun c0 => set_data c0 d) in
         push_client_all w1 g (members w1 g) "change" (c_id c) (c_username c) (c_perms c) d)
        s ph pend None.
Proof.
  intros w s ph pend h c g d HI Hc Hg. cbv zeta.
  set (w1 := upd w h (fun c0 => set_data c0 d)).
  assert (Hn : neutral w w1) by (apply neutral_upd_fields; reflexivity).
  pose proof (inv_weaken_exc _ _ _ _ (Some (g, c_id c)) (inv_neutral w w1 s ph pend None HI Hn)) as H1.
  assert (Hc1 : get_client w1 h = Some (set_data c d))
    by (apply (get_client_upd_self w h (fun c0 => set_data c0 d) c Hc)).
  apply (inv_announce_self w1 s ph pend h (set_data c d) g "change" d H1 Hc1 Hg). auto.
Qed.

(* ------------------------------------------------------------------ *)
(* A new connection                                                    *)

Lemma get_client_new : forall w id i,
  get_client (wset_clients w (w_clients w ++ [new_client id])) i =
  match get_client w i with
  | Some c => Some c
  | None => if Nat.eqb i (List.length (w_clients w)) then Some (new_client id) else None
  end.
Proof.
  intros w id i. unfold get_client. cbn [w_clients wset_clients].
  destruct (Nat.lt_ge_cases i (List.length (w_clients w))) as [Hl|Hl].
  - rewrite nth_error_app1 by exact Hl.
    destruct (nth_error (w_clients w) i) eqn:E; [reflexivity|].
    apply nth_error_None in E. lia.
  - rewrite nth_error_app2 by exact Hl.
    assert (E : nth_error (w_clients w) i = None) by (apply nth_error_None; exact Hl). rewrite E.
    destruct (Nat.eqb_spec i (List.length (w_clients w))) as [->|Hne].
    + rewrite Nat.sub_diag. reflexivity.
    + destruct (i - List.length (w_clients w))%nat as [|n] eqn:En; [lia|].
      cbn. destruct n; reflexivity.
Qed.

Lemma inv_new_client : forall w s ph id,
  Inv_p w s ph [] None -> id <> rec_id ->
  Inv_p (wset_clients w (w_clients w ++ [new_client id])) s ph [] None.
Proof.
  intros w s ph id [HS HV] Hid.
  set (w' := wset_clients w (w_clients w ++ [new_client id])).
  assert (Hgc : forall i, get_client w' i = match get_client w i with
            | Some c => Some c
            | None => if Nat.eqb i (List.length (w_clients w)) then Some (new_client id) else None end)
    by (intros; apply get_client_new).
  assert (Hold : forall i c, get_client w i = Some c -> get_client w' i = Some c).
  { intros i c E. rewrite Hgc, E. reflexivity. }
  assert (Hinv : forall i c', get_client w' i = Some c' ->
            get_client w i = Some c' \/ (get_client w i = None /\ c' = new_client id)).
  { intros i c' E. rewrite Hgc in E. destruct (get_client w i); [left; exact E|].
    destruct (Nat.eqb i _); [|discriminate]. inversion E. auto. }
  assert (HS' : Sinv w').
  { constructor; try apply HS.
    - intros i c' g E. destruct (Hinv i c' E) as [E0 | [E0 ->]].
      + apply (s_memb w HS i c' g E0).
      + cbn. split; [discriminate|]. intros Hin. destruct (s_valid w HS g i Hin) as (c & Ec). congruence.
    - intros g i Hin. destruct (s_valid w HS g i Hin) as (c & Ec). eauto.
    - intros i c' E Hcl. destruct (Hinv i c' E) as [E0 | [E0 ->]]; [|reflexivity].
      apply (s_closed w HS i c' E0 Hcl).
    - intros g h1 h2 c1 c2 H1 H2 E1 E2 Hi.
      destruct (s_valid w HS g h1 H1) as (d1 & D1). destruct (s_valid w HS g h2 H2) as (d2 & D2).
      rewrite (Hold _ _ D1) in E1. rewrite (Hold _ _ D2) in E2. inversion E1; inversion E2; subst.
      eapply (s_ids w HS); eauto.
    - intros i c' E. destruct (Hinv i c' E) as [E0 | [E0 ->]]; [apply (s_noq w HS i c' E0) | exact Hid]. }
  assert (Ht : forall g k, truth w' g k = truth w g k).
  { intros. apply truth_ext; try reflexivity. intros x Hx.
    destruct (s_valid w HS g x Hx) as (c & Ec). rewrite (Hold _ _ Ec), Ec. reflexivity. }
  split; [exact HS'|]. constructor.
  - intros i Hi. apply (v_seen _ _ _ _ _ HV). rewrite Hgc in Hi.
    destruct (get_client w i); [discriminate | reflexivity].
  - intros i c' k E Hcl Hg. destruct (Hinv i c' E) as [E0 | [E0 ->]].
    + apply (v_nm _ _ _ _ _ HV i c' k E0 Hcl Hg).
    + rewrite effq_nil. unfold sentof. rewrite (v_seen _ _ _ _ _ HV i E0). cbn. reflexivity.
  - intros i c' g k E Hg. destruct (Hinv i c' E) as [E0 | [E0 ->]]; [|discriminate Hg].
    rewrite Ht. destruct (v_view _ _ _ _ _ HV i c' g k E0 Hg) as [H | [H | H]]; [left; exact H | | discriminate H].
    right. left. destruct H as (x & cx & H1 & H2 & H3 & H4). exists x, cx.
    split; [exact H1|]. split; [apply Hold; exact H2 | auto].
Qed.

(* ------------------------------------------------------------------ *)
(* A new group                                                         *)

Lemma find_group_in_app : forall gs gs2 name,
  find_group_in (gs ++ gs2) name =
  match find_group_in gs name with Some g => Some g | None => find_group_in gs2 name end.
Proof.
  induction gs as [|g gs IH]; intros gs2 name; [reflexivity|]. cbn [app find_group_in].
  destruct (String.eqb (g_name g) name); [reflexivity | apply IH].
Qed.

Lemma find_group_in_none : forall gs name, find_group_in gs name = None -> ~ In name (map g_name gs).
Proof.
  induction gs as [|g gs IH]; intros name H; [intros []|]. cbn [find_group_in] in H.
  destruct (String.eqb (g_name g) name) eqn:E; [discriminate|].
  cbn [map In]. intros [Hn | Hn]; [subst; rewrite String.eqb_refl in E; discriminate|].
  eapply IH; eauto.
Qed.

Lemma inv_new_group : forall w s ph name d,
  Inv_p w s ph [] None -> find_group w name = None ->
  Inv_p (wset_groups w (w_groups w ++ [mkGroup name d None [] false [] []])) s ph [] None.
Proof.
  intros w s ph name d [HS HV] Hnone.
  set (w' := wset_groups w (w_groups w ++ [mkGroup name d None [] false [] []])).
  assert (Hfg : forall g, find_group w' g =
            match find_group w g with
            | Some gr => Some gr
            | None => if String.eqb name g then Some (mkGroup name d None [] false [] []) else None end).
  { intros g. unfold find_group, w'. cbn [w_groups wset_groups]. rewrite find_group_in_app.
    destruct (find_group_in (w_groups w) g); reflexivity. }
  assert (Hm : forall g, members w' g = members w g).
  { intros g. unfold members. rewrite Hfg. destruct (find_group w g); [reflexivity|].
    destruct (String.eqb name g); reflexivity. }
  assert (Hr : forall g, recording w' g = recording w g).
  { intros g. unfold recording. rewrite Hfg. destruct (find_group w g); [reflexivity|].
    destruct (String.eqb name g); reflexivity. }
  assert (HS' : Sinv w').
  { eapply sinv_ext_names; [exact HS | | exact Hm | reflexivity].
    unfold w'. cbn [w_groups wset_groups]. rewrite map_app. cbn [map g_name].
    apply nodup_snoc; [apply (s_names w HS) | apply find_group_in_none; exact Hnone]. }
  assert (Ht : forall g k, truth w' g k = truth w g k).
  { intros. apply truth_ext; [apply Hm | apply Hr | reflexivity]. }
  split; [exact HS'|]. constructor.
  - apply (v_seen _ _ _ _ _ HV).
  - apply (v_nm _ _ _ _ _ HV).
  - intros i c g k E Hg. rewrite Ht.
    destruct (v_view _ _ _ _ _ HV i c g k E Hg) as [H | [H | H]]; [left; exact H | | discriminate H].
    right. left. destruct H as (x & cx & H1 & H2 & H3 & H4). exists x, cx. rewrite Hm. auto.
Qed.

(* ------------------------------------------------------------------ *)
(* Reading an outbox: the messages move to the log                     *)

Lemma inv_seen_ext : forall w s s' ph pend exc,
  (forall i, s' i = s i) -> Inv_p w s ph pend exc -> Inv_p w s' ph pend exc.
Proof.
  intros w s s' ph pend exc He [HS HV]. split; [exact HS|]. constructor.
  - intros h Hh. rewrite He. apply (v_seen _ _ _ _ _ HV h Hh).
  - intros h c id Hc Hcl Hg. unfold sentof. rewrite He. apply (v_nm _ _ _ _ _ HV h c id Hc Hcl Hg).
  - intros h c g id Hc Hg. unfold sentof. rewrite He. apply (v_view _ _ _ _ _ HV h c g id Hc Hg).
Qed.

Lemma inv_drain : forall w s ph h c,
  Inv_p w s ph [] None -> get_client w h = Some c ->
  Inv_p (upd w h (fun c0 => set_out c0 [])) (fun i => if Nat.eqb i h then s i ++ c_out c else s i)
        ph [] None.
Proof.
  intros w s ph h c [HS HV] Hc.
  set (w' := upd w h (fun c0 => set_out c0 [])).
  set (s' := fun i => if Nat.eqb i h then s i ++ c_out c else s i).
  assert (Hc' : get_client w' h = Some (set_out c []))
    by (apply (get_client_upd_self w h (fun c0 => set_out c0 []) c Hc)).
  assert (Ho : forall i, i <> h -> get_client w' i = get_client w i)
    by (intros; apply get_client_upd_other; assumption).
  assert (Hinv : forall i c', get_client w' i = Some c' ->
            exists c0, get_client w i = Some c0 /\ core c' = core c0 /\ c_queue c' = c_queue c0 /\
                       sentof s' i c' = sentof s i c0).
  { intros i c' E. destruct (Nat.eq_dec i h) as [->|Hne].
    - rewrite Hc' in E. inversion E; subst c'. exists c. repeat split; try assumption.
      unfold sentof, s'. rewrite Nat.eqb_refl. cbn. rewrite app_nil_r. reflexivity.
    - rewrite (Ho i Hne) in E. exists c'. repeat split; try assumption.
      unfold sentof, s'. apply Nat.eqb_neq in Hne. rewrite Hne. reflexivity. }
  assert (HS' : Sinv w').
  { eapply sinv_ext; [exact HS | reflexivity | reflexivity |]. intros i.
    destruct (Nat.eq_dec i h) as [->|Hne]; [rewrite Hc, Hc'; reflexivity | rewrite (Ho i Hne); reflexivity]. }
  assert (Ht : forall g k, truth w' g k = truth w g k).
  { intros. apply truth_ext; try reflexivity. intros x _.
    destruct (Nat.eq_dec x h) as [->|Hne]; [rewrite Hc, Hc'; reflexivity | rewrite (Ho x Hne); reflexivity]. }
  split; [exact HS'|]. constructor.
  - intros i Hi. assert (Hne : i <> h) by congruence. unfold s'.
    apply Nat.eqb_neq in Hne. rewrite Hne. apply (v_seen _ _ _ _ _ HV).
    apply Nat.eqb_neq in Hne. rewrite <- (Ho i Hne). exact Hi.
  - intros i c' k E Hcl Hg. destruct (Hinv i c' E) as (c0 & E0 & Hco & Hq & Hs).
    rewrite effq_nil, Hq, Hs. rewrite <- (effq_nil ph i c0).
    apply (v_nm _ _ _ _ _ HV i c0 k E0); unfold core in Hco; congruence.
  - intros i c' g k E Hg. destruct (Hinv i c' E) as (c0 & E0 & Hco & Hq & Hs).
    rewrite effq_nil, Hq, Hs, Ht. rewrite <- (effq_nil ph i c0).
    assert (Hg0 : c_group c0 = Some g) by (unfold core in Hco; congruence).
    destruct (v_view _ _ _ _ _ HV i c0 g k E0 Hg0) as [H | [H | H]]; [left; exact H | | discriminate H].
    right. left. destruct H as (x & cx & H1 & H2 & H3 & H4). rewrite effq_nil in H4.
    destruct (Nat.eq_dec x h) as [->|Hne].
    + rewrite Hc in H2. inversion H2; subst cx. exists h, (set_out c []).
      split; [exact H1|]. split; [exact Hc'|]. split; [exact H3|]. rewrite effq_nil. exact H4.
    + exists x, cx. rewrite (Ho x Hne), effq_nil. auto.
Qed.

(* C14, part 4: permission changes and announcements preserve the invariant. *)
From Coq Require Import ZArith List Bool String Arith Lia.
From Galene Require Import Generated.Guards Model.Signal Model.SignalUsers
  Proofs.SignalFrame Proofs.SignalSafe Proofs.SignalUsersBase Proofs.SignalUsersFrame
  Proofs.SignalUsersInv.
Import ListNotations.
Open Scope string_scope.
Open Scope list_scope.

(* changePermissionsAction, after the group test: the permissions change and
   the announcement is queued behind everything else *)
Lemma inv_changeperms : forall w s h r c g p,
  Inv_p w s h r None -> get_client w h = Some c -> c_group c = Some g ->
  Inv_p (enq (upd w h (fun c0 => set_perms c0 p)) h APermsChanged) s h r None.
Proof.
  intros w s h r c g p [HS HV] Hc Hg.
  set (c' := set_queue (set_perms c p) (c_queue c ++ [APermsChanged])).
  set (w' := enq (upd w h (fun c0 => set_perms c0 p)) h APermsChanged).
  assert (Hc' : get_client w' h = Some c').
  { unfold w'. rewrite (get_client_enq_self _ h APermsChanged (set_perms c p)); [reflexivity|].
    apply (get_client_upd_self w h (fun c0 => set_perms c0 p) c Hc). }
  assert (Ho : forall i, i <> h -> get_client w' i = get_client w i).
  { intros. unfold w'. rewrite get_client_enq_other, get_client_upd_other by assumption. reflexivity. }
  assert (HS' : Sinv w').
  { eapply sinv_ext; [exact HS | reflexivity | reflexivity |]. intros i.
    destruct (Nat.eq_dec i h) as [->|Hne]; [rewrite Hc, Hc'; reflexivity | rewrite Ho by assumption; reflexivity]. }
  assert (Hin : In h (members w g)) by (apply (s_memb w HS h c g Hc); exact Hg).
  assert (Ht : forall g2 id, (g2 <> g \/ id <> c_id c) -> truth w' g2 id = truth w g2 id).
  { intros g2 id Hne. apply (truth_frame w w' g2 id h HS); try reflexivity.
    - exact Ho.
    - intros c0 E. rewrite Hc in E. inversion E; subst. exists c'. split; [exact Hc' | reflexivity].
    - intros E. congruence.
    - intros c0 E Hin2. rewrite Hc in E. inversion E; subst c0.
      destruct Hne as [Hne | Hne]; [|congruence]. exfalso. apply Hne.
      apply (s_memb w HS h c g2 Hc) in Hin2. congruence. }
  assert (Hd : forall g2 id, dirty w h r g2 id -> dirty w' h r g2 id).
  { intros g2 id (x & cx & Hx1 & Hx2 & Hx3 & Hx4). destruct (Nat.eq_dec x h) as [->|Hne].
    - rewrite Hc in Hx2. inversion Hx2; subst cx. exists h, c'.
      split; [exact Hx1|]. split; [exact Hc'|]. split; [exact Hx3|].
      rewrite effq_self in *. unfold c'. cbn [c_queue set_queue]. rewrite app_assoc.
      apply in_or_app. left. exact Hx4.
    - exists x, cx. rewrite (Ho x Hne). rewrite effq_other in * by assumption. auto. }
  split; [exact HS'|]. constructor.
  - intros i Hi. apply (v_seen _ _ _ _ _ HV). destruct (Nat.eq_dec i h) as [->|Hne]; [congruence|].
    rewrite <- (Ho i Hne). exact Hi.
  - intros i ci id Hi Hcl Hgr. destruct (Nat.eq_dec i h) as [->|Hne].
    + rewrite Hc' in Hi. inversion Hi; subst ci. cbn in Hgr. congruence.
    + rewrite (Ho i Hne) in Hi. apply (v_nm _ _ _ _ _ HV i ci id Hi Hcl Hgr).
  - intros i ci g2 id Hi Hgr.
    assert (Hold : key_view id (Some g2) (sentof s i ci) (effq h r i ci) = truth w g2 id \/
                   dirty w h r g2 id \/ exc_is None g2 id).
    { destruct (Nat.eq_dec i h) as [->|Hne].
      - rewrite Hc' in Hi. inversion Hi; subst ci. rewrite effq_self. unfold c'.
        cbn [c_queue set_queue]. rewrite app_assoc, key_view_app. cbn [fold_left act_step].
        rewrite <- (effq_self h r c). apply (v_view _ _ _ _ _ HV h c g2 id Hc). exact Hgr.
      - rewrite (Ho i Hne) in Hi. apply (v_view _ _ _ _ _ HV i ci g2 id Hi Hgr). }
    destruct (string_dec g2 g) as [->|Hg2].
    + destruct (string_dec id (c_id c)) as [->|Hid].
      * right. left. exists h, c'. split; [exact Hin|]. split; [exact Hc'|]. split; [reflexivity|].
        rewrite effq_self. unfold c'. cbn [c_queue set_queue]. rewrite app_assoc.
        apply in_or_app. right. left. reflexivity.
      * rewrite Ht by (right; exact Hid). destruct Hold as [H | [H | H]]; auto.
    + rewrite Ht by (left; exact Hg2). destruct Hold as [H | [H | H]]; auto.
Qed.

(* permissionsChangedAction: taking the announcement off the queue leaves the
   pair (group, own id) to be announced *)
Lemma inv_head_permschanged : forall w s h r c g,
  Inv_p w s h (APermsChanged :: r) None -> get_client w h = Some c -> c_group c = Some g ->
  Inv_p w s h r (Some (g, c_id c)).
Proof.
  intros w s h r c g [HS HV] Hc Hg. split; [exact HS|]. constructor.
  - apply (v_seen _ _ _ _ _ HV).
  - intros i ci id Hi Hcl Hgr. destruct (Nat.eq_dec i h) as [->|Hne]; [congruence|].
    rewrite effq_other by exact Hne. rewrite <- (effq_other h (APermsChanged :: r) i ci Hne).
    apply (v_nm _ _ _ _ _ HV i ci id Hi Hcl Hgr).
  - intros i ci g2 id Hi Hgr.
    assert (Hq : key_view id (Some g2) (sentof s i ci) (effq h r i ci) =
                 key_view id (Some g2) (sentof s i ci) (effq h (APermsChanged :: r) i ci)).
    { destruct (Nat.eq_dec i h) as [->|Hne]; [|rewrite !effq_other by exact Hne; reflexivity].
      rewrite !effq_self. reflexivity. }
    rewrite Hq. destruct (v_view _ _ _ _ _ HV i ci g2 id Hi Hgr) as [H | [H | H]]; [left; exact H | | discriminate H].
    destruct H as (x & cx & Hx1 & Hx2 & Hx3 & Hx4). destruct (Nat.eq_dec x h) as [->|Hne].
    + right. right. rewrite Hc in Hx2. inversion Hx2; subst cx.
      apply (s_memb w HS h c g2 Hc) in Hx1. unfold exc_is. congruence.
    + right. left. exists x, cx. rewrite effq_other in * by exact Hne. auto.
Qed.

(* announcing the true state of a key to every member of the group *)
Lemma inv_announce : forall w s ph pend g kind id u p d t,
  Inv_p w s ph pend (Some (g, id)) ->
  (forall st, key_step id st (out_user kind id u p) = t) ->
  truth w g id = t ->
  Inv_p (push_client_all w g (members w g) kind id u p d) s ph pend None.
Proof.
  intros w s ph pend g kind id u p d t [HS HV] Hk Ht.
  set (a := APushClient g kind id u p d).
  unfold push_client_all. fold a. set (w' := enq_all w (members w g) a).
  pose proof (s_nodup w HS g) as Hnd.
  assert (Hgc : forall i, get_client w' i =
            if existsb (Nat.eqb i) (members w g)
            then option_map (fun c => set_queue c (c_queue c ++ [a])) (get_client w i)
            else get_client w i).
  { intros. unfold w'. apply get_client_enq_all. exact Hnd. }
  assert (Hinv : forall i c', get_client w' i = Some c' ->
            exists c, get_client w i = Some c /\ core c' = core c /\ c_out c' = c_out c /\
              ((In i (members w g) /\ c_queue c' = c_queue c ++ [a]) \/
               (~ In i (members w g) /\ c' = c))).
  { intros i c' E. rewrite Hgc in E. destruct (existsb (Nat.eqb i) (members w g)) eqn:Eb.
    - apply existsb_eqb_in in Eb. destruct (get_client w i) as [c|]; cbn in E; [|discriminate].
      inversion E; subst c'. exists c. split; [reflexivity|]. split; [reflexivity|]. split; [reflexivity|].
      left. split; [exact Eb | reflexivity].
    - exists c'. split; [exact E|]. split; [reflexivity|]. split; [reflexivity|]. right. split; [|reflexivity].
      intro Hin. apply existsb_eqb_in in Hin. congruence. }
  assert (Hm : forall g2, members w' g2 = members w g2) by (intros; apply members_enq_all).
  assert (HS' : Sinv w').
  { eapply sinv_ext; [exact HS | unfold w'; rewrite groups_enq_all; reflexivity | exact Hm |].
    intros i. rewrite Hgc. destruct (existsb (Nat.eqb i) (members w g)); [|reflexivity].
    destruct (get_client w i); reflexivity. }
  assert (Htr : forall g2 id2, truth w' g2 id2 = truth w g2 id2).
  { intros. apply truth_ext; [apply Hm | apply recording_enq_all |].
    intros x _. rewrite Hgc. destruct (existsb (Nat.eqb x) (members w g)); [|reflexivity].
    destruct (get_client w x); reflexivity. }
  assert (Hd : forall g2 id2, dirty w ph pend g2 id2 -> dirty w' ph pend g2 id2).
  { intros g2 id2 (x & cx & Hx1 & Hx2 & Hx3 & Hx4). rewrite <- Hm in Hx1.
    specialize (Hgc x). rewrite Hx2 in Hgc. destruct (existsb (Nat.eqb x) (members w g)); cbn in Hgc.
    - eexists x, _. split; [exact Hx1|]. split; [exact Hgc|]. split; [exact Hx3|].
      erewrite effq_ext; [|reflexivity]. apply in_or_app. left. exact Hx4.
    - exists x, cx. auto. }
  split; [exact HS'|]. constructor.
  - intros i Hi. apply (v_seen _ _ _ _ _ HV). rewrite Hgc in Hi.
    destruct (existsb (Nat.eqb i) (members w g)); [|exact Hi].
    destruct (get_client w i); [discriminate | reflexivity].
  - intros i c' id2 Hi Hcl Hgr. destruct (Hinv i c' Hi) as (c & Hc & Hco & Hout & Hq).
    assert (Hg0 : c_group c = None) by (unfold core in Hco; congruence).
    destruct Hq as [[Hin _] | [_ ->]].
    + apply (s_memb w HS i c g Hc) in Hin. congruence.
    + apply (v_nm _ _ _ _ _ HV i c id2 Hc); [exact Hcl | exact Hg0].
  - intros i c' g2 id2 Hi Hgr. destruct (Hinv i c' Hi) as (c & Hc & Hco & Hout & Hq).
    assert (Hg0 : c_group c = Some g2) by (unfold core in Hco; congruence).
    rewrite Htr. pose proof (v_view _ _ _ _ _ HV i c g2 id2 Hc Hg0) as Hold.
    destruct Hq as [[Hin Hqq] | [Hnin ->]].
    + assert (g2 = g) by (apply (s_memb w HS i c g Hc) in Hin; congruence). subst g2.
      rewrite (effq_ext ph pend i c c' [a] Hqq), key_view_app. unfold sentof. rewrite Hout. fold (sentof s i c).
      cbn [fold_left]. unfold a at 1. cbn [act_step]. rewrite String.eqb_refl.
      destruct (string_dec id2 id) as [->|Hne].
      * left. rewrite Hk. symmetry. exact Ht.
      * rewrite key_step_user_other by (apply String.eqb_neq; congruence).
        destruct Hold as [H | [H | H]]; auto. unfold exc_is in H. congruence.
    + destruct Hold as [H | [H | H]]; auto. unfold exc_is in H. inversion H as [[E1 E2]].
      exfalso. apply Hnin. apply (s_memb w HS i c g Hc). congruence.
Qed.

(* the announcement of a member's own state (permissionsChangedAction, setdata) *)
Lemma inv_announce_self : forall w s ph pend h c g kind d,
  Inv_p w s ph pend (Some (g, c_id c)) -> get_client w h = Some c -> c_group c = Some g ->
  kind = "add" \/ kind = "change" ->
  Inv_p (push_client_all w g (members w g) kind (c_id c) (c_username c) (c_perms c) d) s ph pend None.
Proof.
  intros w s ph pend h c g kind d HI Hc Hg Hk.
  eapply inv_announce; [exact HI | |].
  - intros st. destruct Hk as [-> | ->]; [apply key_step_add | apply key_step_change].
  - destruct HI as [HS _]. eapply truth_of_member; eauto. apply (s_memb w HS h c g Hc). exact Hg.
Qed.

(* C06, part 4: packing NACK lists.  ToBitmap iterated as rtpUpTrack.sendNACKs
   does, and the filter of nackWriter. *)
From Coq Require Import ZArith List Bool Lia Sorted.
From Coq Require Import ZifyBool.
From Galene Require Import Lib.Word Model.Cache Model.Loss Proofs.LossBits Proofs.LossTrack.
Import ListNotations.
Open Scope Z_scope.
Ltac Zify.zify_post_hook ::= Z.div_mod_to_equations.

Definition tb_delta (first s : Z) : Z := w16 (s - first - 1).

Lemma tb_delta_back first s : is16 s -> w16 (first + 1 + tb_delta first s) = s.
Proof. unfold tb_delta, w16, is16. lia. Qed.

(* ---------- one call of ToBitmap ---------- *)
Lemma tbl_spec first : forall rest bm, 0 <= bm < 2 ^ 16 ->
  let '(bm', remain) := to_bitmap_loop first bm rest in
  exists pre, rest = pre ++ remain /\
    Forall (fun s => tb_delta first s < 16) pre /\
    match remain with [] => True | s :: _ => 16 <= tb_delta first s end /\
    0 <= bm' < 2 ^ 16 /\
    forall i, 0 <= i < 16 ->
      Z.testbit bm' i = Z.testbit bm i || existsb (fun s => tb_delta first s =? i) pre.
Proof.
  induction rest as [|s rest IH]; intros bm Hbm; cbn [to_bitmap_loop].
  - exists []. repeat split; try lia; auto. intros i _. cbn. rewrite orb_false_r. reflexivity.
  - fold (tb_delta first s). destruct (16 <=? tb_delta first s) eqn:E.
    + exists []. split; [reflexivity|]. split; [constructor|]. split; [lia|]. split; [exact Hbm|].
      intros i _. cbn. rewrite orb_false_r. reflexivity.
    + assert (Hd : 0 <= tb_delta first s < 16) by (unfold tb_delta in *; pose proof (w16_range (s - first - 1)); lia).
      assert (Hbm2 : 0 <= Z.lor bm (2 ^ tb_delta first s) < 2 ^ 16).
      { apply lor_range; [lia|exact Hbm|].
        split; [apply Z.pow_nonneg; lia|apply Z.pow_lt_mono_r; lia]. }
      specialize (IH _ Hbm2).
      destruct (to_bitmap_loop first (Z.lor bm (2 ^ tb_delta first s)) rest) as [bm' remain].
      destruct IH as (pre & -> & Hpre & Hrem & Hr & Hbits).
      exists (s :: pre). split; [reflexivity|]. split; [constructor; [lia|exact Hpre]|].
      split; [exact Hrem|]. split; [exact Hr|].
      intros i Hi. rewrite Hbits by exact Hi. cbn [existsb].
      rewrite Z.lor_spec, Z.pow2_bits_eqb by lia.
      rewrite <- orb_assoc. reflexivity.
Qed.

Lemma to_bitmap_spec first rest :
  match to_bitmap (first :: rest) with
  | None => False
  | Some (f, bm, remain) =>
      f = first /\ exists pre, rest = pre ++ remain /\
        Forall (fun s => tb_delta first s < 16) pre /\
        match remain with [] => True | s :: _ => 16 <= tb_delta first s end /\
        0 <= bm < 2 ^ 16 /\
        forall i, 0 <= i < 16 ->
          Z.testbit bm i = existsb (fun s => tb_delta first s =? i) pre
  end.
Proof.
  cbn [to_bitmap]. pose proof (tbl_spec first rest 0 ltac:(cbn; lia)) as H.
  destruct (to_bitmap_loop first 0 rest) as [bm remain].
  destruct H as (pre & H1 & H2 & H3 & H4 & H5). split; [reflexivity|].
  exists pre. repeat split; auto; try lia. intros i Hi. rewrite H5 by exact Hi.
  rewrite Z.bits_0. reflexivity.
Qed.

(* the numbers denoted by one pair are first and the covered prefix *)
Lemma nums_chunk first bm pre : is16 first -> Forall is16 pre ->
  Forall (fun s => tb_delta first s < 16) pre ->
  (forall i, 0 <= i < 16 -> Z.testbit bm i = existsb (fun s => tb_delta first s =? i) pre) ->
  forall n, In n (nums first bm) <-> In n (first :: pre).
Proof.
  intros Hf Hp16 Hpre Hbits n. rewrite in_nums. cbn [In]. split.
  - intros [->|(i & Hi & Hb & ->)]; [left; reflexivity|right].
    rewrite Hbits in Hb by exact Hi. apply existsb_exists in Hb. destruct Hb as (s & Hs & Heq).
    assert (tb_delta first s = i) by lia. subst i.
    rewrite tb_delta_back; [exact Hs|]. rewrite Forall_forall in Hp16. apply Hp16. exact Hs.
  - intros [<-|Hin]; [left; reflexivity|right].
    rewrite Forall_forall in Hp16, Hpre.
    exists (tb_delta first n). split; [unfold tb_delta; pose proof (w16_range (n - first - 1)); specialize (Hpre n Hin); cbn in Hpre; unfold tb_delta in Hpre; lia|].
    split; [|symmetry; apply tb_delta_back; apply Hp16; exact Hin].
    rewrite Hbits.
    + apply existsb_exists. exists n. split; [exact Hin|lia].
    + specialize (Hpre n Hin). cbn in Hpre. unfold tb_delta in *. pose proof (w16_range (n - first - 1)). lia.
Qed.

(* ---------- iterating ToBitmap (sendNACKs) ---------- *)
Lemma in_nums_of_pairs_cons p ps n :
  In n (nums_of_pairs (p :: ps)) <-> In n (nums (fst p) (snd p)) \/ In n (nums_of_pairs ps).
Proof. unfold nums_of_pairs. cbn [map concat]. apply in_app_iff. Qed.

Lemma pairs_loop_sound fuel : forall count l, Forall is16 l ->
  forall n, In n (nums_of_pairs (nack_pairs_loop fuel count l)) -> In n l.
Proof.
  induction fuel as [|fuel IH]; intros count l H16 n Hin; cbn [nack_pairs_loop] in Hin.
  - destruct Hin.
  - destruct l as [|first rest]; [destruct Hin|].
    destruct (240 <=? count); [destruct Hin|].
    pose proof (to_bitmap_spec first rest) as Hs.
    destruct (to_bitmap (first :: rest)) as [[[f bm] remain]|]; [|destruct Hs].
    destruct Hs as (-> & pre & -> & Hpre & _ & Hbm & Hbits).
    inversion H16 as [|? ? Hf16 Hr16]; subst. apply Forall_app in Hr16. destruct Hr16 as [Hp16 Hrem16].
    apply in_nums_of_pairs_cons in Hin. cbn [fst snd] in Hin. destruct Hin as [Hin|Hin].
    + apply (nums_chunk first bm pre Hf16 Hp16 Hpre Hbits) in Hin.
      destruct Hin as [<-|Hin]; [left; reflexivity|right; apply in_or_app; left; exact Hin].
    + right. apply in_or_app. right. apply (IH _ _ Hrem16 _ Hin).
Qed.

Lemma pairs_loop_complete fuel : forall count l, Forall is16 l ->
  (length l <= fuel)%nat -> count + Z.of_nat (length l) <= 240 ->
  forall n, In n l -> In n (nums_of_pairs (nack_pairs_loop fuel count l)).
Proof.
  induction fuel as [|fuel IH]; intros count l H16 Hlen Hcap n Hin.
  - destruct l; [destruct Hin|cbn in Hlen; lia].
  - cbn [nack_pairs_loop]. destruct l as [|first rest]; [destruct Hin|].
    cbn [length] in Hlen, Hcap.
    destruct (240 <=? count) eqn:Ec; [lia|].
    pose proof (to_bitmap_spec first rest) as Hs.
    destruct (to_bitmap (first :: rest)) as [[[f bm] remain]|]; [|destruct Hs].
    destruct Hs as (-> & pre & -> & Hpre & _ & Hbm & Hbits).
    inversion H16 as [|? ? Hf16 Hr16]; subst. apply Forall_app in Hr16. destruct Hr16 as [Hp16 Hrem16].
    apply in_nums_of_pairs_cons. cbn [fst snd].
    rewrite app_length in Hlen, Hcap.
    destruct Hin as [<-|Hin].
    + left. apply (nums_chunk first bm pre Hf16 Hp16 Hpre Hbits). left; reflexivity.
    + apply in_app_or in Hin. destruct Hin as [Hin|Hin].
      * left. apply (nums_chunk first bm pre Hf16 Hp16 Hpre Hbits). right; exact Hin.
      * right. apply IH; [exact Hrem16|lia|lia|exact Hin].
Qed.

(* C06_tobitmap_lossless, as sets, for arbitrary lists *)
Theorem tobitmap_set_lossless l : Forall is16 l ->
  (forall n, In n (nums_of_pairs (nack_list_to_pairs l)) -> In n l) /\
  ((length l <= 240)%nat ->
   forall n, In n l -> In n (nums_of_pairs (nack_list_to_pairs l))).
Proof.
  intros H16. split.
  - apply pairs_loop_sound; exact H16.
  - intros Hlen. apply pairs_loop_complete; [exact H16|lia|lia].
Qed.

(* ---------- sorted lists: the sequence is reproduced exactly ---------- *)
Definition before_from (cutoff a b : Z) : Prop := w16 (a - cutoff) < w16 (b - cutoff).

Lemma sorted_lt_unique (l1 : list Z) : forall l2,
  StronglySorted Z.lt l1 -> StronglySorted Z.lt l2 ->
  (forall x, In x l1 <-> In x l2) -> l1 = l2.
Proof.
  induction l1 as [|a l1 IH]; intros l2 H1 H2 Hiff.
  - destruct l2 as [|b l2]; [reflexivity|]. exfalso. apply (proj2 (Hiff b)). left; reflexivity.
  - destruct l2 as [|b l2]; [exfalso; apply (proj1 (Hiff a)); left; reflexivity|].
    inversion H1 as [|? ? S1 F1]; subst. inversion H2 as [|? ? S2 F2]; subst.
    rewrite Forall_forall in F1, F2.
    assert (a = b).
    { destruct (proj1 (Hiff a) (or_introl eq_refl)) as [Hab|Hin]; [auto|].
      destruct (proj2 (Hiff b) (or_introl eq_refl)) as [Hba|Hin2]; [auto|].
      specialize (F2 _ Hin). specialize (F1 _ Hin2). lia. }
    subst b. f_equal. apply IH; [exact S1|exact S2|].
    intros x. split; intros Hx.
    + destruct (proj1 (Hiff x) (or_intror Hx)) as [Heq|Hin]; [|exact Hin].
      subst x. specialize (F1 _ Hx). lia.
    + destruct (proj2 (Hiff x) (or_intror Hx)) as [Heq|Hin]; [|exact Hin].
      subst x. specialize (F2 _ Hx). lia.
Qed.

Lemma StronglySorted_filter {A} (R : A -> A -> Prop) (p : A -> bool) l :
  StronglySorted R l -> StronglySorted R (filter p l).
Proof.
  intros H. induction H as [|a l S IH F]; cbn; [constructor|].
  destruct (p a); [|exact IH]. constructor; [exact IH|].
  rewrite Forall_forall in *. intros x Hx. apply filter_In in Hx. apply F. tauto.
Qed.

Lemma blp_sorted : StronglySorted Z.lt blp_indices.
Proof.
  unfold blp_indices.
  repeat (constructor; [|repeat (constructor; [lia|]); constructor]). constructor.
Qed.

(* within one chunk the offsets increase when the list is sorted from a cutoff *)
Lemma chunk_deltas_sorted cutoff first pre :
  is16 first -> Forall is16 pre ->
  StronglySorted (before_from cutoff) (first :: pre) ->
  Forall (fun s => tb_delta first s < 16) pre ->
  StronglySorted Z.lt (map (tb_delta first) pre).
Proof.
  intros Hf Hp16 Hs Hpre. inversion Hs as [|? ? Hs' Hfirst]; subst. clear Hs.
  induction pre as [|a pre IH]; cbn [map]; [constructor|].
  inversion Hs' as [|? ? Hs'' Ha]; subst. inversion Hp16; subst. inversion Hpre; subst.
  inversion Hfirst; subst.
  constructor; [apply IH; assumption|].
  rewrite Forall_forall in *. intros d Hd. apply in_map_iff in Hd. destruct Hd as (b & <- & Hb).
  specialize (Ha _ Hb). pose proof (H2 _ Hb) as Hb16. pose proof (H4 _ Hb) as Hbd.
  pose proof (H6 _ Hb) as Hfb. cbn in Hbd.
  unfold before_from, tb_delta, w16, is16 in *. lia.
Qed.

Lemma nums_chunk_seq cutoff first bm pre : is16 first -> Forall is16 pre ->
  StronglySorted (before_from cutoff) (first :: pre) ->
  Forall (fun s => tb_delta first s < 16) pre ->
  (forall i, 0 <= i < 16 -> Z.testbit bm i = existsb (fun s => tb_delta first s =? i) pre) ->
  nums first bm = first :: pre.
Proof.
  intros Hf Hp16 Hs Hpre Hbits. unfold nums. f_equal.
  assert (Hfl : filter (fun i => Z.testbit bm i) blp_indices = map (tb_delta first) pre).
  { apply sorted_lt_unique.
    - apply StronglySorted_filter, blp_sorted.
    - eapply chunk_deltas_sorted; eassumption.
    - intros i. rewrite filter_In, blp_indices_range, in_map_iff. split.
      + intros [Hi Hb]. rewrite Hbits in Hb by exact Hi. apply existsb_exists in Hb.
        destruct Hb as (s & Hin & Heq). exists s. split; [lia|exact Hin].
      + intros (s & <- & Hin). rewrite Forall_forall in Hpre. specialize (Hpre _ Hin). cbn in Hpre.
        assert (Hr : 0 <= tb_delta first s < 16)
          by (unfold tb_delta in *; pose proof (w16_range (s - first - 1)); lia).
        split; [exact Hr|]. rewrite Hbits by exact Hr. apply existsb_exists.
        exists s. split; [exact Hin|lia]. }
  rewrite Hfl, map_map. clear - Hp16.
  induction pre as [|a pre IH]; [reflexivity|]. inversion Hp16; subst. cbn [map]. f_equal.
  - apply tb_delta_back. assumption.
  - apply IH. assumption.
Qed.

Lemma StronglySorted_app_r {A} (R : A -> A -> Prop) l1 l2 :
  StronglySorted R (l1 ++ l2) -> StronglySorted R l2.
Proof.
  induction l1 as [|a l1 IH]; cbn; [auto|]. intros H. inversion H; subst. auto.
Qed.
Lemma StronglySorted_app_l {A} (R : A -> A -> Prop) l1 l2 :
  StronglySorted R (l1 ++ l2) -> StronglySorted R l1.
Proof.
  induction l1 as [|a l1 IH]; cbn; [constructor|]. intros H. inversion H as [|? ? S F]; subst.
  constructor; [auto|]. rewrite Forall_forall in *. intros x Hx. apply F. apply in_or_app. left; exact Hx.
Qed.

Lemma pairs_loop_seq cutoff fuel : forall count l, Forall is16 l ->
  StronglySorted (before_from cutoff) l ->
  (length l <= fuel)%nat -> count + Z.of_nat (length l) <= 240 ->
  nums_of_pairs (nack_pairs_loop fuel count l) = l.
Proof.
  induction fuel as [|fuel IH]; intros count l H16 Hs Hlen Hcap.
  - destruct l; [reflexivity|cbn in Hlen; lia].
  - cbn [nack_pairs_loop]. destruct l as [|first rest]; [reflexivity|].
    cbn [length] in Hlen, Hcap.
    destruct (240 <=? count) eqn:Ec; [lia|].
    pose proof (to_bitmap_spec first rest) as Hsp.
    destruct (to_bitmap (first :: rest)) as [[[f bm] remain]|]; [|destruct Hsp].
    destruct Hsp as (-> & pre & -> & Hpre & _ & Hbm & Hbits).
    inversion H16 as [|? ? Hf16 Hr16]; subst. apply Forall_app in Hr16. destruct Hr16 as [Hp16 Hrem16].
    rewrite app_length in Hlen, Hcap.
    unfold nums_of_pairs. cbn [map concat fst snd]. fold (nums_of_pairs (nack_pairs_loop fuel (count + 1) remain)).
    rewrite IH; [|exact Hrem16| |lia|lia].
    + rewrite (nums_chunk_seq cutoff first bm pre Hf16 Hp16); [reflexivity| |exact Hpre|exact Hbits].
      change (first :: pre ++ remain) with ((first :: pre) ++ remain) in Hs.
      apply StronglySorted_app_l in Hs. exact Hs.
    + change (first :: pre ++ remain) with ((first :: pre) ++ remain) in Hs.
      apply StronglySorted_app_r in Hs. exact Hs.
Qed.

(* C06_tobitmap_lossless for the lists sendNACKs is given (sorted from the
   cutoff, distinct): the denoted sequence IS the list *)
Theorem tobitmap_seq_lossless cutoff l : Forall is16 l ->
  StronglySorted (before_from cutoff) l -> (length l <= 240)%nat ->
  nums_of_pairs (nack_list_to_pairs l) = l.
Proof. intros H16 Hs Hlen. apply (pairs_loop_seq cutoff); [exact H16|exact Hs|lia|lia]. Qed.

(* beyond 240 pairs the rest of the list is dropped ("NACK: packet overflow") *)
Lemma pairs_loop_length fuel : forall count l,
  Z.of_nat (length (nack_pairs_loop fuel count l)) <= Z.max 0 (240 - count).
Proof.
  induction fuel as [|fuel IH]; intros count l; cbn [nack_pairs_loop]; [cbn; lia|].
  destruct l as [|a l]; [cbn; lia|]. destruct (240 <=? count) eqn:E; [cbn; lia|].
  destruct (to_bitmap (a :: l)) as [[[f bm] rest]|]; [|cbn; lia].
  cbn [length]. specialize (IH (count + 1) rest). lia.
Qed.

(* ---------- nackWriter ---------- *)
Lemma in_insert_by key x a l : In x (insert_by key a l) <-> x = a \/ In x l.
Proof.
  induction l as [|y l IH]; cbn [insert_by In]; [intuition auto|].
  destruct (key a <? key y); cbn [In]; [intuition auto|]. rewrite IH. intuition auto.
Qed.
Lemma in_sort_by key x l : In x (sort_by key l) <-> In x l.
Proof.
  induction l as [|a l IH]; cbn [sort_by fold_right In]; [tauto|].
  fold (sort_by key l). rewrite in_insert_by, IH. intuition auto.
Qed.

Lemma insert_by_sorted key a l :
  StronglySorted (fun x y => key x <= key y) l ->
  StronglySorted (fun x y => key x <= key y) (insert_by key a l).
Proof.
  intros H. induction H as [|y l S IH F]; cbn [insert_by]; [repeat constructor|].
  destruct (key a <? key y) eqn:E.
  - constructor; [constructor; assumption|]. constructor; [lia|].
    rewrite Forall_forall in *. intros x Hx. specialize (F x Hx). lia.
  - constructor; [exact IH|]. rewrite Forall_forall in *. intros x Hx.
    apply in_insert_by in Hx. destruct Hx as [->|Hx]; [lia|apply F; exact Hx].
Qed.
Lemma sort_by_sorted key l : StronglySorted (fun x y => key x <= key y) (sort_by key l).
Proof.
  induction l as [|a l IH]; cbn [sort_by fold_right]; [constructor|].
  apply insert_by_sorted. exact IH.
Qed.

Lemma insert_by_NoDup key a l : ~ In a l -> NoDup l -> NoDup (insert_by key a l).
Proof.
  intros Hna Hnd. induction Hnd as [|y l Hny Hnd IH]; cbn [insert_by]; [repeat constructor; auto|].
  destruct (key a <? key y).
  - constructor; [exact Hna|constructor; assumption].
  - constructor.
    + intros Hin. apply in_insert_by in Hin. destruct Hin as [->|Hin]; [apply Hna; left; reflexivity|contradiction].
    + apply IH. intros Hin. apply Hna. right; exact Hin.
Qed.
Lemma sort_by_NoDup key l : NoDup l -> NoDup (sort_by key l).
Proof.
  intros H. induction H as [|a l Hna Hnd IH]; cbn [sort_by fold_right]; [constructor|].
  apply insert_by_NoDup; [|exact IH]. fold (sort_by key l). rewrite in_sort_by. exact Hna.
Qed.

Lemma sorted_le_strict cutoff l : Forall is16 l -> NoDup l ->
  StronglySorted (fun x y => w16 (x - cutoff) <= w16 (y - cutoff)) l ->
  StronglySorted (before_from cutoff) l.
Proof.
  intros H16 Hnd Hs. induction Hs as [|a l S IH F]; [constructor|].
  inversion H16; subst. inversion Hnd; subst. constructor; [apply IH; assumption|].
  rewrite Forall_forall in *. intros x Hx. specialize (F x Hx).
  assert (x <> a) by (intros ->; contradiction).
  pose proof (H2 x Hx). unfold before_from, w16, is16 in *. lia.
Qed.

Theorem nackwriter_spec in_cache cutoff nacks : Forall is16 nacks -> NoDup nacks ->
  let l := nackwriter_filter in_cache cutoff nacks in
  (forall n, In n l <-> In n nacks /\ in_cache n = false /\ w16 (n - cutoff) < 32768) /\
  StronglySorted (before_from cutoff) l /\ NoDup l /\ Forall is16 l /\
  ((length l <= 240)%nat -> nums_of_pairs (nack_list_to_pairs l) = l) /\
  (forall n, In n (nums_of_pairs (nack_list_to_pairs l)) -> In n nacks /\ in_cache n = false).
Proof.
  intros H16 Hnd l.
  assert (Hin : forall n, In n l <-> In n nacks /\ in_cache n = false /\ w16 (n - cutoff) < 32768).
  { intros n. unfold l, nackwriter_filter. rewrite in_sort_by, filter_In. unfold nackwriter_keep.
    destruct (in_cache n); destruct (32768 <=? w16 (n - cutoff)) eqn:E; cbn; intuition (try lia; try discriminate). }
  assert (Hl16 : Forall is16 l).
  { rewrite Forall_forall in *. intros n Hn. apply Hin in Hn. apply H16. tauto. }
  assert (Hlnd : NoDup l) by (unfold l, nackwriter_filter; apply sort_by_NoDup, filter_NoDup, Hnd).
  assert (Hsorted : StronglySorted (before_from cutoff) l).
  { apply sorted_le_strict; [exact Hl16|exact Hlnd|].
    unfold l, nackwriter_filter. apply (sort_by_sorted (fun n => w16 (n - cutoff))). }
  split; [exact Hin|]. split; [exact Hsorted|]. split; [exact Hlnd|]. split; [exact Hl16|]. split.
  - intros Hlen. apply (tobitmap_seq_lossless cutoff); assumption.
  - intros n Hn. apply (proj1 (tobitmap_set_lossless l Hl16)) in Hn. apply Hin in Hn. tauto.
Qed.

(* the whole of nackWriter on a cache: only numbers the cache does not hold *)
Theorem nack_writer_not_held c nacks : Forall is16 nacks -> NoDup nacks ->
  forall n, In n (nums_of_pairs (nack_writer c nacks)) ->
    In n nacks /\ cache_holds c n = false.
Proof.
  intros H16 Hnd n. unfold nack_writer.
  destruct (nackwriter_cutoff (c_keyframeq c) (c_lastq c)) as [cutoff|]; [|intros []].
  pose proof (nackwriter_spec (cache_holds c) cutoff nacks H16 Hnd) as Hs. cbv zeta in Hs.
  destruct Hs as (_ & _ & _ & _ & _ & Hsound).
  destruct (nackwriter_filter (cache_holds c) cutoff nacks) as [|a l] eqn:E; [intros []|].
  intros Hin. apply Hsound. exact Hin.
Qed.

(* rtpUpTrack.GetPacket never buffers a number twice: the list handed to
   nackWriter is duplicate-free (hypothesis NoDup of nackwriter_spec) *)
Lemma buffer_nack_NoDup buffered s : NoDup buffered -> NoDup (buffer_nack buffered s).
Proof.
  intros Hnd. unfold buffer_nack. destruct (existsb (Z.eqb s) buffered) eqn:E; [exact Hnd|].
  assert (Hnin : ~ In s buffered).
  { intros Hin. assert (existsb (Z.eqb s) buffered = true).
    { apply existsb_exists. exists s. split; [exact Hin|apply Z.eqb_refl]. }
    congruence. }
  clear E. induction Hnd as [|a l Hna Hnd IH]; cbn [app].
  - constructor; [intros []|constructor].
  - constructor.
    + intros Hin. apply in_app_or in Hin. destruct Hin as [Hin|[<-|[]]]; [contradiction|].
      apply Hnin. left; reflexivity.
    + apply IH. intros Hin. apply Hnin. right; exact Hin.
Qed.
Lemma buffer_nacks_NoDup l : NoDup (fold_left buffer_nack l []).
Proof.
  assert (H : forall acc, NoDup acc -> NoDup (fold_left buffer_nack l acc)).
  { induction l as [|s l IH]; intros acc Hacc; cbn [fold_left]; [exact Hacc|].
    apply IH. apply buffer_nack_NoDup. exact Hacc. }
  apply H. constructor.
Qed.

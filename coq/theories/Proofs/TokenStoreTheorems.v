(* The C16 statements over histories from the initial state, and the concrete
   witnesses (non-vacuity, necessity of the hypotheses). *)
From Coq Require Import ZArith List Bool Lia.
From Galene Require Import Model.TokenStore Proofs.TokenStoreBasics Proofs.TokenStoreInv
  Proofs.TokenStoreProps Proofs.TokenStoreCond.
Import ListNotations.
Open Scope Z_scope.

Lemma reach_Inv : forall h, fresh [] h -> Forall ok_op h -> Inv (used_run [] h) (run init_state h).
Proof. intros h Hf Hok. apply run_Inv; [apply Inv_init | exact Hf | exact Hok]. Qed.

Lemma restart_is_restart_state : forall s, fst (step s ORestart) = restart_state s.
Proof. intros [m f]; reflexivity. Qed.

(* ---- mirror ---- *)
Lemma mirror_get_hist : forall h n,
  fresh [] h -> Forall ok_op h ->
  let s := run init_state h in
  snd (step s (OGet n)) = snd (step (fst (step s ORestart)) (OGet n)).
Proof.
  intros h n Hf Hok s. rewrite restart_is_restart_state.
  eapply mirror_get. apply reach_Inv; assumption.
Qed.

Lemma mirror_list_hist : forall h g,
  fresh [] h -> Forall ok_op h ->
  let s := run init_state h in
  let o := snd (step s (OList g)) in
  let o' := snd (step (fst (step s ORestart)) (OList g)) in
  o_res o = o_res o' /\ o_etag o = o_etag o' /\ (forall t, In t (o_toks o) <-> In t (o_toks o')).
Proof.
  intros h g Hf Hok s. rewrite restart_is_restart_state.
  eapply mirror_list. apply reach_Inv; assumption.
Qed.

(* what the server honours is exactly what the file says *)
Lemma mirror_file_hist : forall h n,
  fresh [] h -> Forall ok_op h ->
  let s := run init_state h in
  match fresh_view s with
  | None => o_res (snd (step s (OGet n))) = ROther
  | Some ts =>
    match tlookup n ts with
    | Some t => o_res (snd (step s (OGet n))) = ROk /\ o_toks (snd (step s (OGet n))) = [t]
    | None => o_res (snd (step s (OGet n))) = RNotExist
    end
  end.
Proof.
  intros h n Hf Hok s.
  pose proof (reach_Inv h Hf Hok) as HI. fold s in HI.
  rewrite (mirror_get _ s n HI). unfold fresh_view, restart_state.
  destruct s as [m f]. cbn [step s_mem s_file lines_of].
  destruct f as [fl|].
  - assert (Hz : stamp_eqb (m_st reset_mem) (f_st fl) = false).
    { apply stamp_eqb_neq. cbn. intros E.
      apply (inv_used _ _ HI (f_st fl)); [apply (inv_filest _ _ HI); reflexivity | rewrite <- E; reflexivity]. }
    cbn [load]. rewrite Hz. cbn [lines_of].
    destruct (parse (f_lines fl)) as [ts|]; [| reflexivity].
    cbn [m_tokens]. destruct (tlookup n ts); cbn; auto.
  - cbn. reflexivity.
Qed.

(* ---- revocation ---- *)
Lemma revocation_delete_hist : forall h1 n e st h2,
  o_res (snd (step (run init_state h1) (ODo (WDelete n e st)))) = ROk ->
  Forall (fun o => ~ recreates n o) h2 ->
  o_res (snd (step (run init_state (h1 ++ ODo (WDelete n e st) :: h2)) (OGet n))) <> ROk.
Proof.
  intros h1 n e st h2 Hd Hh. rewrite run_app. cbn [run].
  apply absent_get. apply absent_run; [| exact Hh]. apply delete_absent; exact Hd.
Qed.

Lemma revocation_expire_hist : forall h1 now st n t h2,
  fresh [] h1 -> Forall ok_op h1 ->
  let s := run init_state h1 in
  snd (step s (OGet n)) = mkOut ROk (o_etag (snd (step s (OGet n)))) [t] ->
  swept now t = true ->
  o_res (snd (step s (ODo (WExpire now st)))) = ROk ->
  Forall (fun o => ~ recreates n o) h2 ->
  o_res (snd (step (run init_state (h1 ++ ODo (WExpire now st) :: h2)) (OGet n))) <> ROk.
Proof.
  intros h1 now st n t h2 Hf Hok s Hg Hsw He Hh. rewrite run_app. cbn [run].
  apply absent_get. apply absent_run; [| exact Hh].
  eapply expire_absent; [apply reach_Inv; eassumption | exact Hg | exact Hsw | exact He].
Qed.

(* ---- conditional ---- *)
Lemma exclusive_hist : forall h0 wA h wB ste,
  fresh [] (h0 ++ ODo wA :: h ++ [ODo wB]) -> Forall ok_op h0 ->
  cond_tag wA = Some ste -> cond_tag wB = Some ste ->
  let s := run init_state h0 in
  o_res (snd (step s (ODo wA))) = ROk ->
  o_res (snd (step (run (fst (step s (ODo wA))) h) (ODo wB))) <> ROk.
Proof.
  intros h0 wA h wB ste Hf Hok HcA HcB s HA.
  apply fresh_app in Hf. destruct Hf as [Hf0 Hf1].
  eapply exclusive; [apply reach_Inv; eassumption | exact Hf1 | exact HcA | exact HcB | exact HA].
Qed.

Lemma no_lost_update_hist : forall h0 n ste h w,
  fresh [] (h0 ++ h) -> Forall ok_op h0 ->
  let s := run init_state h0 in
  o_res (snd (step s (OGet n))) = ROk -> o_etag (snd (step s (OGet n))) = Some ste ->
  cond_tag w = Some ste ->
  o_res (snd (step (run (fst (step s (OGet n))) h) (ODo w))) = ROk ->
  s_file (run (fst (step s (OGet n))) h) = s_file s.
Proof.
  intros h0 n ste h w Hf Hok s Hr He Hc Hw.
  apply fresh_app in Hf. destruct Hf as [Hf0 Hf1].
  eapply no_change_since_read; [apply reach_Inv; eassumption | exact Hf1 | exact Hr | exact He | exact Hc | exact Hw].
Qed.

Lemma two_editors_hist : forall h0 a1 a2 sc s' e1 e2 tr,
  fresh [] (h0 ++ tr) -> Forall ok_op (h0 ++ tr) ->
  run_sched (run init_state h0) a1 a2 ed_start ed_start sc = (s', e1, e2, tr) ->
  ed_tag e1 = ed_tag e2 -> ed_tag e1 <> None ->
  ~ (ed_res e1 = ROk /\ ed_res e2 = ROk).
Proof.
  intros h0 a1 a2 sc s' e1 e2 tr Hf Hok Hrun Ht Hne.
  apply fresh_app in Hf. destruct Hf as [Hf0 Hf1]. apply Forall_app in Hok. destruct Hok as [Hok0 Hok1].
  eapply two_editors; [apply reach_Inv; eassumption | exact Hrun | exact Hf1 | exact Hok1 | exact Ht | exact Hne].
Qed.

(* a checker for the freshness hypothesis, to discharge it on concrete histories *)
Definition stamp_inb (st : stamp) (l : list stamp) : bool := existsb (stamp_eqb st) l.
Fixpoint freshb (used : list stamp) (h : list op) : bool :=
  match h with
  | [] => true
  | o :: r =>
    forallb (fun st => negb (stamp_inb st used) && negb (st_mtime st =? 0)) (op_stamps o)
    && freshb (op_stamps o ++ used) r
  end.
Lemma freshb_sound : forall h used, freshb used h = true -> fresh used h.
Proof.
  induction h as [|o r IH]; intros used H; cbn [fresh freshb] in *; [exact I|].
  apply andb_true_iff in H. destruct H as [H1 H2]. split; [| apply IH; exact H2].
  intros st Hi. rewrite forallb_forall in H1. specialize (H1 st Hi).
  apply andb_true_iff in H1. destruct H1 as [Ha Hb].
  split.
  - intros Hin. apply negb_true_iff in Ha. unfold stamp_inb in Ha.
    assert (E : existsb (stamp_eqb st) used = true).
    { apply existsb_exists. exists st; split; [exact Hin | apply stamp_eqb_refl]. }
    congruence.
  - apply negb_true_iff in Hb. apply Z.eqb_neq; exact Hb.
Qed.

(* ================= witnesses ================= *)

Definition tA : token := mkTok 1 1 (Some 3600) None 1.
Definition tA' : token := mkTok 1 1 (Some 7200) (Some (-3600)) 7.
Definition tB : token := mkTok 2 1 (Some 7200) None 2.
Definition tOld : token := mkTok 3 2 (Some (-700000)) None 3.
Definition S (k : Z) : stamp := mkSt (100 + k) k.

(* non-vacuity: a history with fresh stamps through every kind of operation *)
Definition example_history : list op :=
  [ ODo (WUpdate tA None (S 1) (S 2));               (* create *)
    ODo (WUpdate tB None (S 3) (S 4));
    ODo (WUpdate tOld None (S 5) (S 6));
    OGet 1;                                          (* tag S 6 *)
    ODo (WUpdate tA' None (S 7) (S 8));              (* no tag: refused *)
    ODo (WUpdate tA' (Some (S 6)) (S 9) (S 10));     (* edit with the tag *)
    ODo (WDelete 2 (Some (S 6)) (S 11));             (* stale tag: refused *)
    ODo (WDelete 2 (Some (S 10)) (S 12));            (* delete *)
    ODo (WExpire 0 (S 13));                          (* sweeps tOld *)
    ORestart;
    OGet 2; OGet 3; OGet 1;
    OCrash (WUpdate tB None (S 14) (S 15)) 1 false;  (* crash after the open of add() *)
    OFail (WDelete 1 (Some (S 13)) (S 16)) 0;        (* last token: the unlink fails, rolled back *)
    OExternal (Some [Rec tB]) (S 17);
    OList 1 ].

Lemma example_ok :
  fresh [] example_history /\ Forall ok_op example_history /\
  map o_res (outs init_state example_history) =
    [ROk; ROk; ROk; ROk; RMismatch; ROk; RMismatch; ROk; ROk; ROk;
     RNotExist; RNotExist; ROk; ROther; ROther; ROk; ROk] /\
  o_toks (snd (step (run init_state example_history) (OGet 1))) = [] /\
  o_toks (snd (step (run init_state example_history) (OGet 2))) = [tB].
Proof.
  split; [| split; [| split; [| split]]].
  - apply freshb_sound. vm_compute. reflexivity.
  - repeat constructor; intros now st H; discriminate H.
  - vm_compute. reflexivity.
  - vm_compute. reflexivity.
  - vm_compute. reflexivity.
Qed.

(* "successive versions have different stamps" alone is not enough: a stamp
   that comes back (size and mtime equal to those of the version the server
   has in memory) hides the change *)
Definition new_stamp (o : op) : option stamp :=
  match o with
  | ODo (WUpdate _ _ _ st) | ODo (WDelete _ _ st) | ODo (WExpire _ st) | OExternal _ st => Some st
  | _ => None
  end.
Fixpoint successive_distinct (prev : stamp) (h : list op) : Prop :=
  match h with
  | [] => True
  | o :: r => match new_stamp o with
              | Some st => st <> prev /\ st_mtime st <> 0 /\ successive_distinct st r
              | None => successive_distinct prev r
              end
  end.

Definition aba_history : list op :=
  [ ODo (WUpdate tA None (S 1) (S 2));
    OExternal (Some [Rec tB]) (S 3);
    OExternal (Some [Rec tB]) (S 2) ].

Lemma aba_breaks_mirror :
  successive_distinct zero_stamp aba_history /\
  o_res (snd (step (run init_state aba_history) (OGet 1))) = ROk /\
  o_res (snd (step (fst (step (run init_state aba_history) ORestart)) (OGet 1))) = RNotExist.
Proof.
  split; [| split; vm_compute; reflexivity].
  cbn. repeat split; discriminate.
Qed.

(* and a stale tag then succeeds: the update of a second editor is lost *)
Definition aba_lost_update : list op :=
  [ ODo (WUpdate tA None (S 1) (S 2));
    OGet 1;                                          (* editor 1 reads tag S 2 *)
    ODo (WUpdate tA' (Some (S 2)) (S 3) (S 2)) ].    (* editor 2 edits; same size, same mtime *)
Lemma aba_lost_update_ok :
  successive_distinct zero_stamp [nth 0 aba_lost_update ORestart] /\
  o_res (snd (step (run init_state aba_lost_update)
                   (ODo (WUpdate tA (Some (S 2)) (S 5) (S 6))))) = ROk.
Proof. split; [cbn; repeat split; discriminate | vm_compute; reflexivity]. Qed.

(* the assumption on write(2) is needed for add(): a torn line makes the
   whole file undecodable, nothing is honoured any more *)
Lemma torn_append_loses_all :
  let s := run init_state [ODo (WUpdate tA None (S 1) (S 2))] in
  let w := WUpdate tB None (S 3) (S 4) in
  creates s w /\ fresh_view s = Some [tA] /\
  fresh_view (fst (step s (OCrash w 1 true))) = None /\
  o_res (snd (step (fst (step s (OCrash w 1 true))) (OGet 1))) = ROther.
Proof.
  cbv zeta. split; [| split; [| split]]; try (vm_compute; reflexivity).
  exists tB, (S 3), (S 4). split; [reflexivity | vm_compute; reflexivity].
Qed.

(* an I/O error inside Expire: the sweep stays in memory but not in the file *)
Definition expire_fail_history : list op :=
  [ ODo (WUpdate tOld None (S 1) (S 2));
    ODo (WUpdate tB None (S 3) (S 4));
    OFail (WExpire 0 (S 5)) 3 ].                     (* the rename fails *)

Lemma expire_io_error_breaks_mirror :
  fresh [] expire_fail_history /\
  o_res (snd (step (run init_state expire_fail_history) (OGet 3))) = RNotExist /\
  o_res (snd (step (fst (step (run init_state expire_fail_history) ORestart)) (OGet 3))) = ROk.
Proof.
  split; [| split; vm_compute; reflexivity].
  apply freshb_sound. vm_compute. reflexivity.
Qed.

(* two editors on a concrete state: same tag, one write succeeds, the other
   is refused *)
Lemma two_editors_example :
  let s := run init_state [ODo (WUpdate tA None (S 1) (S 2)); ODo (WUpdate tB None (S 3) (S 4))] in
  let '(_, e1, e2, _) :=
    run_sched s (EEdit tA' (S 5) (S 6)) (EDel 2 (S 7)) ed_start ed_start [SEd1; SEd2; SEd2; SEd1] in
  ed_tag e1 = Some (S 4) /\ ed_tag e2 = Some (S 4) /\ ed_res e2 = ROk /\ ed_res e1 = RMismatch.
Proof. vm_compute. repeat split; reflexivity. Qed.

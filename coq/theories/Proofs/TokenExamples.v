(* C09: refutations of the two literal readings that the code does not
   implement, with their witnesses, and the concrete states used by the
   non-vacuity examples of Properties/C09.v. *)
From Coq Require Import ZArith List Bool String Ascii Lia.
From Galene Require Import Model.Token Proofs.TokenScope Proofs.TokenAuth.
Import ListNotations.
Open Scope string_scope.
Open Scope Z_scope.

(* The equivalence "authorises g <-> covers tg sub g" does not extend to the
   pseudo-group "" (the scope asked for by checkGlobalAdminToken): a root
   token that does not cover subgroups names "" but is refused. *)
Lemma scope_iff_fails_at_root :
  exists t g, covers (st_group t) (st_sub t) g /\ stateful_match t g = false.
Proof.
  exists (mkStateful "" false None [] (Some 0) None), "". split; [now left | reflexivity].
Qed.

(* A signed token is still accepted after its expiry time, during the leeway
   that parseJWT configures (jwt.WithLeeway(5*time.Second)): the literal
   window nbf <= now <= exp does not hold for signed tokens. *)
Definition ex_key : key := mkKey 0 (Some "oct") (Some "HS256") (Some "k1") true.
Definition ex_rsa : key := mkKey 1 (Some "RSA") (Some "RS256") None true.
Definition ex_verify (k : key) (alg : string) (d : Z) : bool := Z.eqb (k_id k) d.
Definition ex_claims (exp : numclaim) : claims :=
  mkClaims exp NAbsent NAbsent true "john" true
           [mkAud true "galene.ORG:8443" "/group/a/"] false true ["present"].
Definition ex_jwt (alg : string) (kid : string) (exp : numclaim) : jwt Z :=
  mkJWT Z (mkHeader (Some alg) kid) (ex_claims exp) 0.

Lemma jwt_strict_window_fails :
  exists (verify : key -> string -> Z -> bool) now keys (j : jwt Z) e,
    jwt_parse Z verify now keys j = PValid /\
    c_exp (j_claims Z j) = NDate e /\ e < now.
Proof.
  exists ex_verify, (1000 * 1000000000 + 3 * 1000000000), [ex_key],
         (ex_jwt "HS256" "" (NDate (1000 * 1000000000))), (1000 * 1000000000).
  split; [reflexivity|]. split; [reflexivity | reflexivity].
Qed.

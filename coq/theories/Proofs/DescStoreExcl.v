(* Exclusivity of conditional updates (Model/DescStore.v) over all
   interleavings.  The only hypothesis is the property's own: the stamps
   (size, mtime) the filesystem gives to the versions of the file are pairwise
   different ([Fresh]). *)
From Coq Require Import ZArith List Bool Lia.
From Galene Require Import Model.Etag Proofs.EtagSpec Model.DescStore Proofs.DescStoreTag.
Import ListNotations.
Open Scope Z_scope.

Ltac inv H := inversion H; subst; clear H.

(* ------------------------------------------------------------ the locked functions *)

Definition conditional (r : req) : bool :=
  match r with
  | PutGroup _ _ _ | DelGroup _ _ | PutUser _ _ _ _ | DelUser _ _ _ => true
  | _ => false
  end.

(* the tag of the object a request is about, as its handler reads it; empty
   if the object does not exist *)
Definition obj_tag (r : req) (f : file) : str :=
  match read_step r f with Some e => e | None => [] end.

Lemma rewrite_file_cases : forall wr f c ns f' x,
  rewrite_file wr f c ns = (f', x) ->
  (x = ROk /\ f' = Some (c, ns)) \/ (x = RNotWritable /\ f' = f).
Proof. intros wr f c ns f' x H. unfold rewrite_file in H. destruct wr; inv H; tauto. Qed.

Lemma obj_tag_cases : forall r f, obj_tag r f = [] \/ obj_tag r f = file_tag f.
Proof.
  intros r f. unfold obj_tag.
  destruct r; cbn [read_step]; unfold get_description_tag, get_user_tag;
    destruct f as [[c s]|]; cbn [file_tag]; try tauto;
    destruct (find_target t c); tauto.
Qed.

Lemma locked_ok : forall wr r e f ns f',
  locked_step wr r e f ns = (f', ROk) -> is_write r = true ->
  (conditional r = true -> obj_tag r f = e) /\
  (f' = None \/ exists c, f' = Some (c, ns)) /\
  (f = None -> f' <> None) /\ (f' = None -> f <> None).
Proof.
  intros wr r e f ns f' H W.
  destruct r; cbn [is_write] in W; try discriminate; cbn [locked_step conditional] in *;
    unfold obj_tag; cbn [read_step].
  - (* PutGroup *)
    unfold update_description in H.
    destruct (str_eqb (file_tag f) e) eqn:Q; cbn [negb] in H; [|inv H].
    apply str_eqb_eq in Q. apply rewrite_file_cases in H.
    destruct H as [[_ H]|[H _]]; [|discriminate]. subst f'.
    repeat split; try (intros; discriminate); eauto.
  - (* DelGroup *)
    unfold delete_description in H. destruct f as [[c s]|]; [|inv H].
    destruct (str_eqb e (make_etag s)) eqn:Q; cbn [negb] in H; [|inv H].
    apply str_eqb_eq in Q. inv H. cbn [get_description_tag].
    repeat split; try (intros; discriminate); auto.
  - (* PutUser *)
    unfold update_user in H. destruct f as [[c s]|]; [|inv H].
    unfold get_user_tag.
    destruct (find_target t c) eqn:F;
      (match type of H with context [str_eqb ?a ?b] => destruct (str_eqb a b) eqn:Q end;
       cbn [negb] in H; [|inv H]);
      apply str_eqb_eq in Q; apply rewrite_file_cases in H;
      (destruct H as [[_ H]|[H _]]; [|discriminate]); subst f';
      repeat split; try (intros; discriminate); eauto.
  - (* DelUser *)
    unfold delete_user in H. destruct f as [[c s]|]; [|inv H].
    unfold get_user_tag. destruct (find_target t c) eqn:F; [|inv H].
    destruct (str_eqb (make_etag s) e) eqn:Q; cbn [negb] in H; [|inv H].
    apply str_eqb_eq in Q. apply rewrite_file_cases in H.
    destruct H as [[_ H]|[H _]]; [|discriminate]. subst f'.
    repeat split; try (intros; discriminate); eauto.
  - (* SetPw *)
    unfold set_user_password in H. destruct f as [[c s]|]; [|inv H].
    destruct (find_target t c) eqn:F; [|inv H].
    apply rewrite_file_cases in H. destruct H as [[_ H]|[H _]]; [|discriminate]. subst f'.
    repeat split; try (intros; discriminate); eauto.
  - (* SetKeys *)
    unfold set_keys in H. destruct f as [[c s]|]; [|inv H].
    apply rewrite_file_cases in H. destruct H as [[_ H]|[H _]]; [|discriminate]. subst f'.
    repeat split; try (intros; discriminate); eauto.
Qed.

Lemma locked_fail : forall wr r e f ns f' x,
  locked_step wr r e f ns = (f', x) -> x <> ROk -> f' = f.
Proof.
  intros wr r e f ns f' x H N.
  destruct r; cbn [locked_step] in H.
  - inv H. congruence.
  - unfold update_description in H. destruct (negb (str_eqb (file_tag f) e)); [inv H; reflexivity|].
    apply rewrite_file_cases in H. destruct H as [[H _]|[_ H]]; congruence.
  - unfold delete_description in H. destruct f as [[c s]|]; [|inv H; reflexivity].
    destruct (negb (str_eqb e (make_etag s))); inv H; [reflexivity | congruence].
  - inv H. congruence.
  - unfold update_user in H. destruct f as [[c s]|]; [|inv H; reflexivity].
    match type of H with context [negb ?a] => destruct (negb a) end; [inv H; reflexivity|].
    apply rewrite_file_cases in H. destruct H as [[H _]|[_ H]]; congruence.
  - unfold delete_user in H. destruct f as [[c s]|]; [|inv H; reflexivity].
    destruct (find_target t c); [|inv H; reflexivity].
    destruct (negb (str_eqb (make_etag s) e)); [inv H; reflexivity|].
    apply rewrite_file_cases in H. destruct H as [[H _]|[_ H]]; congruence.
  - unfold set_user_password in H. destruct f as [[c s]|]; [|inv H; reflexivity].
    destruct (find_target t c); [|inv H; reflexivity].
    apply rewrite_file_cases in H. destruct H as [[H _]|[_ H]]; congruence.
  - unfold set_keys in H. destruct f as [[c s]|]; [|inv H; reflexivity].
    apply rewrite_file_cases in H. destruct H as [[H _]|[_ H]]; congruence.
Qed.

Lemma locked_read : forall wr r e f ns,
  is_write r = false -> locked_step wr r e f ns = (f, ROk).
Proof. intros wr r e f ns H. destruct r; cbn in H; try discriminate; reflexivity. Qed.

Lemma write_step_acked : forall wr r e f ns f' h,
  write_step wr r e f ns = (f', h) -> acked r h = true ->
  check_preconditions (req_method r) e (req_im r) (req_inm r) = CpNotDone /\
  locked_step wr r e f ns = (f', ROk) /\ is_write r = true.
Proof.
  intros wr r e f ns f' h H A. unfold write_step in H.
  destruct (check_preconditions (req_method r) e (req_im r) (req_inm r)); try (inv H; discriminate).
  destruct (locked_step wr r e f ns) as [f2 x] eqn:L. inv H.
  cbn [acked] in A. destruct x; try discriminate. tauto.
Qed.

Lemma write_step_quiet : forall wr r e f ns f' h,
  write_step wr r e f ns = (f', h) -> acked r h = false -> f' = f.
Proof.
  intros wr r e f ns f' h H A. unfold write_step in H.
  destruct (check_preconditions (req_method r) e (req_im r) (req_inm r)); try (inv H; reflexivity).
  destruct (locked_step wr r e f ns) as [f2 x] eqn:L. inv H.
  cbn [acked] in A. destruct x.
  - rewrite (locked_read wr r e f ns A) in L. inv L. reflexivity.
  - eapply locked_fail; [exact L | discriminate].
  - eapply locked_fail; [exact L | discriminate].
  - eapply locked_fail; [exact L | discriminate].
Qed.

Lemma nodup_app_disj : forall A (l1 l2 : list A) x,
  NoDup (l1 ++ l2) -> In x l1 -> In x l2 -> False.
Proof.
  induction l1 as [|a l1 IH]; intros l2 x N H1 H2; [contradiction|].
  cbn [app] in N. inv N. destruct H1 as [E|H1].
  - subst a. apply H3. apply in_or_app. right. exact H2.
  - eapply IH; eauto.
Qed.

(* ------------------------------------------------------------ upd *)

Lemma upd_length : forall A n (x : A) l, length (upd n x l) = length l.
Proof. induction n; destruct l; cbn [upd length]; auto. Qed.

Lemma nth_upd_eq : forall A n (x : A) l y,
  nth_error l n = Some y -> nth_error (upd n x l) n = Some x.
Proof.
  induction n; destruct l; cbn [upd nth_error]; intros y H; try discriminate; eauto.
Qed.

Lemma nth_upd_neq : forall A n m (x : A) l,
  n <> m -> nth_error (upd n x l) m = nth_error l m.
Proof.
  induction n; destruct l, m; cbn [upd nth_error]; intros H; try reflexivity; try congruence.
  apply IHn. congruence.
Qed.

(* ------------------------------------------------------------ one scheduler step *)

Definition okdone (reqs : list req) (ws : list wstate) (i : nat) : Prop :=
  exists r h, nth_error reqs i = Some r /\ nth_error ws i = Some (WDone h) /\ acked r h = true.

Inductive step_kind (wr : bool) (reqs : list req) (w : world) (i : nat) (ns : stamp) (w' : world) : Prop :=
| quiet_step :
    w_file w' = w_file w -> w_log w' = w_log w ->
    length (w_ws w') = length (w_ws w) ->
    (forall j, okdone reqs (w_ws w') j <-> okdone reqs (w_ws w) j) ->
    step_kind wr reqs w i ns w'
| acked_step : forall r e f' h,
    nth_error reqs i = Some r ->
    nth_error (w_ws w) i = Some (WRead e) ->
    write_step wr r e (w_file w) ns = (f', h) ->
    acked r h = true ->
    w' = mkWorld f' (upd i (WDone h) (w_ws w)) (mkEv i e (w_file w) f' :: w_log w) ->
    step_kind wr reqs w i ns w'.

Lemma okdone_upd_other : forall reqs ws i st j,
  i <> j -> (okdone reqs (upd i st ws) j <-> okdone reqs ws j).
Proof.
  intros reqs ws i st j N. unfold okdone. rewrite nth_upd_neq by assumption. tauto.
Qed.

Lemma sched_step_kind : forall wr reqs w i ns,
  step_kind wr reqs w i ns (sched_step wr reqs w (i, ns)).
Proof.
  intros wr reqs w i ns. unfold sched_step.
  destruct (nth_error reqs i) as [r|] eqn:R;
    [|apply quiet_step; try reflexivity; intro; tauto].
  destruct (nth_error (w_ws w) i) as [[|e|h0]|] eqn:S;
    try (apply quiet_step; try reflexivity; intro; tauto).
  - (* read step *)
    assert (Q : forall st, (forall h, st = WDone h -> acked r h = false) ->
      forall j, okdone reqs (upd i st (w_ws w)) j <-> okdone reqs (w_ws w) j).
    { intros st Hst j. destruct (Nat.eq_dec i j) as [E|N]; [|apply okdone_upd_other; assumption].
      subst j. unfold okdone. rewrite (nth_upd_eq _ _ st _ _ S). split.
      - intros (r' & h & R' & E & A). rewrite R in R'. inv R'. inv E.
        rewrite (Hst h eq_refl) in A. discriminate.
      - intros (r' & h & _ & E & _). rewrite S in E. discriminate. }
    destruct (read_step r (w_file w)) as [e|]; apply quiet_step; cbn [w_file w_log w_ws];
      try reflexivity; try apply upd_length; apply Q; intros h E; inv E; reflexivity.
  - (* write step *)
    destruct (write_step wr r e (w_file w) ns) as [f' h] eqn:Wt.
    destruct (acked r h) eqn:A.
    + eapply acked_step; eauto.
    + pose proof (write_step_quiet _ _ _ _ _ _ _ Wt A) as E. subst f'.
      apply quiet_step; cbn [w_file w_log w_ws]; try reflexivity; try apply upd_length.
      intro j. destruct (Nat.eq_dec i j) as [E|N]; [|apply okdone_upd_other; assumption].
      subst j. unfold okdone. rewrite (nth_upd_eq _ _ (WDone h) _ _ S). split.
      * intros (r' & h' & R' & E & A'). rewrite R in R'. inv R'. inv E. congruence.
      * intros (r' & h' & _ & E & _). rewrite S in E. discriminate.
Qed.

(* ------------------------------------------------------------ the log invariant *)

Definition stamp_of (f : file) : list stamp :=
  match f with Some (_, s) => [s] | None => [] end.

(* stamps of all versions so far, newest first *)
Definition vs (f0 : file) (log : list event) : list stamp :=
  flat_map (fun ev => stamp_of (ev_new ev)) log ++ stamp_of f0.

Fixpoint chainN (f0 : file) (log : list event) (cur : file) : Prop :=
  match log with
  | [] => cur = f0
  | ev :: rest => ev_new ev = cur /\ chainN f0 rest (ev_old ev)
  end.

Definition ev_ok (wr : bool) (reqs : list req) (ev : event) : Prop :=
  exists r ns h,
    nth_error reqs (ev_writer ev) = Some r /\
    write_step wr r (ev_etag ev) (ev_old ev) ns = (ev_new ev, h) /\ acked r h = true.

(* the property's hypothesis: all versions get different stamps *)
Definition Fresh (f0 : file) (sched : list (nat * stamp)) : Prop :=
  NoDup (stamp_of f0 ++ map snd sched).

(* needs no hypothesis on the stamps *)
Record InvL (wr : bool) (reqs : list req) (f0 : file) (w : world) : Prop := {
  il_len : length (w_ws w) = length reqs;
  il_chain : chainN f0 (w_log w) (w_file w);
  il_ev : Forall (ev_ok wr reqs) (w_log w)
}.

(* the versions so far and the stamps still to come are pairwise different *)
Definition InvN (f0 : file) (w : world) (rest : list (nat * stamp)) : Prop :=
  NoDup (vs f0 (w_log w) ++ map snd rest).

Lemma chain_cur_stamp : forall f0 log cur s,
  chainN f0 log cur -> In s (stamp_of cur) -> In s (vs f0 log).
Proof.
  intros f0 log cur s C H. unfold vs. destruct log as [|ev rest]; cbn [chainN] in C.
  - subst. cbn. exact H.
  - destruct C as [E _]. subst cur. cbn [flat_map]. apply in_or_app. left.
    apply in_or_app. left. exact H.
Qed.

Lemma InvL_init : forall wr reqs f0, InvL wr reqs f0 (init_world f0 reqs).
Proof.
  intros wr reqs f0. constructor; cbn.
  - apply map_length.
  - reflexivity.
  - constructor.
Qed.

Lemma InvL_step : forall wr reqs f0 w i ns,
  InvL wr reqs f0 w -> InvL wr reqs f0 (sched_step wr reqs w (i, ns)).
Proof.
  intros wr reqs f0 w i ns [L C E].
  destruct (sched_step_kind wr reqs w i ns) as [Hf Hl Hlen _|r e f' h R S Wt A Ew].
  - constructor.
    + congruence.
    + rewrite Hl, Hf. exact C.
    + rewrite Hl. exact E.
  - rewrite Ew. constructor; cbn [w_file w_ws w_log].
    + rewrite upd_length. exact L.
    + cbn [chainN ev_new ev_old]. split; [reflexivity | exact C].
    + constructor; [|exact E]. exists r, ns, h. cbn [ev_writer ev_etag ev_old ev_new]. tauto.
Qed.

Lemma InvN_step : forall wr reqs f0 w i ns rest,
  InvN f0 w ((i, ns) :: rest) -> InvN f0 (sched_step wr reqs w (i, ns)) rest.
Proof.
  intros wr reqs f0 w i ns rest N. unfold InvN in *. cbn [map snd] in N.
  destruct (sched_step_kind wr reqs w i ns) as [Hf Hl Hlen _|r e f' h R S Wt A Ew].
  - rewrite Hl. eapply NoDup_remove_1. exact N.
  - rewrite Ew. cbn [w_log].
    destruct (write_step_acked _ _ _ _ _ _ _ Wt A) as (_ & Lk & W).
    destruct (locked_ok _ _ _ _ _ _ Lk W) as (_ & [Hn|[c Hs]] & _).
    + subst f'. unfold vs. cbn [flat_map ev_new stamp_of app].
      eapply NoDup_remove_1. exact N.
    + subst f'. unfold vs. cbn [flat_map ev_new stamp_of app].
      apply NoDup_remove in N. destruct N as [N1 N2].
      constructor; assumption.
Qed.

Lemma run_invariant : forall (P : world -> list (nat * stamp) -> Prop) wr reqs,
  (forall w i ns rest, P w ((i, ns) :: rest) -> P (sched_step wr reqs w (i, ns)) rest) ->
  forall sched w, P w sched -> P (fold_left (sched_step wr reqs) sched w) [].
Proof.
  intros P wr reqs Hs. induction sched as [|[i ns] rest IH]; intros w H; cbn [fold_left].
  - exact H.
  - apply IH. apply Hs. exact H.
Qed.

Theorem run_InvL : forall wr reqs f0 sched, InvL wr reqs f0 (run wr reqs f0 sched).
Proof.
  intros wr reqs f0 sched. unfold run.
  apply (run_invariant (fun w _ => InvL wr reqs f0 w)).
  - intros. apply InvL_step. assumption.
  - apply InvL_init.
Qed.

Theorem run_InvN : forall wr reqs f0 sched,
  Fresh f0 sched -> InvN f0 (run wr reqs f0 sched) [].
Proof.
  intros wr reqs f0 sched F. unfold run.
  apply (run_invariant (InvN f0)).
  - intros. apply InvN_step. assumption.
  - exact F.
Qed.

(* ------------------------------------------------------------ same tag: at most one *)

(* a request whose If-Match can only be satisfied by the tag t *)
Definition holds_tag (t : str) (r : req) : Prop :=
  req_im r <> [] /\ forall e, matches e (req_im r) -> e = t.

Definition holder (t : str) (reqs : list req) (i : nat) : Prop :=
  exists r, nth_error reqs i = Some r /\ holds_tag t r.

(* the tag t can never be current again *)
Definition dead (t : str) (cur : file) (rest : list (nat * stamp)) : Prop :=
  t <> [] /\ file_tag cur <> t /\ forall s, In s (map snd rest) -> make_etag s <> t.

Record InvT (t : str) (reqs : list req) (w : world) (rest : list (nat * stamp)) : Prop := {
  it_dead : (exists i, holder t reqs i /\ okdone reqs (w_ws w) i) -> dead t (w_file w) rest;
  it_pair : forall i j, i <> j -> holder t reqs i -> holder t reqs j ->
            okdone reqs (w_ws w) i -> okdone reqs (w_ws w) j -> False
}.

Lemma cp_notdone_im : forall m e im inm,
  check_preconditions m e im inm = CpNotDone -> im <> [] -> matches e im.
Proof.
  intros m e im inm H N. destruct (if_match_exact m e im inm N) as [_ K]. auto.
Qed.

Lemma cp_notdone_inm : forall m e im inm,
  check_preconditions m e im inm = CpNotDone -> inm <> [] -> ~ matches e inm.
Proof.
  intros m e im inm H N M.
  pose proof (check_preconditions_spec m e im inm) as S. unfold cp_spec in S.
  rewrite H in S.
  destruct S as [(_ & _ & S)|[(_ & _ & _ & S)|(_ & [S|S] & _)]];
    try discriminate; try tauto; try (destruct (is_get_or_head m); discriminate).
Qed.

(* an acknowledged write of a holder of t found t as the current tag *)
Lemma holder_acked : forall wr t r e f ns f' h,
  holds_tag t r -> write_step wr r e f ns = (f', h) -> acked r h = true ->
  e = t /\ t <> [] /\ file_tag f = t /\ (f' = None \/ exists c, f' = Some (c, ns)).
Proof.
  intros wr t r e f ns f' h [Him Hall] Wt A.
  destruct (write_step_acked _ _ _ _ _ _ _ Wt A) as (Cp & Lk & W).
  pose proof (cp_notdone_im _ _ _ _ Cp Him) as M.
  pose proof (Hall _ M) as E. subst e.
  assert (Tn : t <> []). { intro Z. subst t. exact (matches_absent _ M). }
  assert (Cd : conditional r = true).
  { destruct r; cbn in W, Him |- *; try reflexivity; try discriminate; congruence. }
  destruct (locked_ok _ _ _ _ _ _ Lk W) as (Ho & Hs & _).
  specialize (Ho Cd).
  destruct (obj_tag_cases r f) as [Z|Z]; [congruence|].
  repeat split; try assumption. congruence.
Qed.

Lemma InvT_step : forall wr t reqs f0 w i ns rest,
  InvL wr reqs f0 w -> InvN f0 w ((i, ns) :: rest) ->
  InvT t reqs w ((i, ns) :: rest) ->
  InvT t reqs (sched_step wr reqs w (i, ns)) rest.
Proof.
  intros wr t reqs f0 w i ns rest IL Nd [D P].
  destruct (sched_step_kind wr reqs w i ns) as [Hf Hl Hlen Hok|r e f' h R S Wt A Ew].
  - constructor.
    + intros (j & Hj & Oj). apply Hok in Oj.
      destruct (D (ex_intro _ j (conj Hj Oj))) as (T1 & T2 & T3).
      rewrite Hf. repeat split; try assumption.
      intros s Hs. apply T3. cbn [map snd]. right. exact Hs.
    + intros a b N Ha Hb Oa Ob. apply Hok in Oa. apply Hok in Ob. eapply P; eauto.
  - (* writer i is acknowledged now; it was not before *)
    assert (Ni : ~ okdone reqs (w_ws w) i).
    { intros (r' & h' & _ & E & _). rewrite S in E. discriminate. }
    assert (Ok' : forall j, okdone reqs (upd i (WDone h) (w_ws w)) j <->
                            (j = i \/ okdone reqs (w_ws w) j)).
    { intro j. destruct (Nat.eq_dec i j) as [E|N].
      - subst j. split; [tauto|]. intros _. exists r, h.
        rewrite (nth_upd_eq _ _ (WDone h) _ _ S). tauto.
      - rewrite (okdone_upd_other _ _ _ _ _ N). split; [tauto|].
        intros [E|O]; [congruence | exact O]. }
    (* facts about the stamps *)
    destruct IL as [_ Ch _]. unfold InvN in Nd. cbn [map snd] in Nd.
    apply NoDup_remove in Nd. destruct Nd as [Nd1 Nd2].
    assert (Cur : forall s, In s (stamp_of (w_file w)) ->
                  s <> ns /\ ~ In s (map snd rest)).
    { intros s Hs. pose proof (chain_cur_stamp _ _ _ _ Ch Hs) as Hv. split.
      - intro E. subst s. apply Nd2. apply in_or_app. left. exact Hv.
      - intro Hr. apply (nodup_app_disj _ _ _ s Nd1 Hv Hr). }
    rewrite Ew. constructor; cbn [w_file w_ws w_log].
    + intros (j & Hj & Oj). apply Ok' in Oj.
      assert (Hsh : f' = None \/ exists c, f' = Some (c, ns)).
      { destruct (write_step_acked _ _ _ _ _ _ _ Wt A) as (_ & Lk & W).
        destruct (locked_ok _ _ _ _ _ _ Lk W) as (_ & Hs & _). exact Hs. }
      destruct Oj as [Ej|Oj].
      * (* i is a holder: t is the tag of the version it replaced *)
        subst j. destruct Hj as (r' & R' & Hh). rewrite R in R'. inv R'.
        destruct (holder_acked _ _ _ _ _ _ _ _ Hh Wt A) as (_ & Tn & Ft & _).
        destruct (w_file w) as [[c0 s0]|] eqn:Fw; cbn [file_tag] in Ft; [|congruence].
        destruct (Cur s0 (or_introl eq_refl)) as [Cn Cr].
        repeat split; try assumption.
        -- destruct Hsh as [Z|[c Z]]; subst f'; cbn [file_tag]; [congruence|].
           intro E. rewrite <- Ft in E. apply make_etag_inj in E. congruence.
        -- intros s Hs E. rewrite <- Ft in E. apply make_etag_inj in E. subst s. tauto.
      * (* somebody had succeeded before: t was already dead *)
        destruct (D (ex_intro _ j (conj Hj Oj))) as (T1 & T2 & T3).
        repeat split; try assumption.
        -- destruct Hsh as [Z|[c Z]]; subst f'; cbn [file_tag]; [congruence|].
           apply T3. cbn [map snd]. left. reflexivity.
        -- intros s Hs. apply T3. cbn [map snd]. right. exact Hs.
    + intros a b N Ha Hb Oa Ob. apply Ok' in Oa. apply Ok' in Ob.
      assert (Key : forall a b, a <> b -> holder t reqs a -> holder t reqs b ->
                    a = i -> okdone reqs (w_ws w) b -> False).
      { intros a' b' N' Ha' Hb' Ea Ob'. subst a'.
        destruct (D (ex_intro _ b' (conj Hb' Ob'))) as (T1 & T2 & T3).
        destruct Ha' as (r' & R' & Hh). rewrite R in R'. inv R'.
        destruct (holder_acked _ _ _ _ _ _ _ _ Hh Wt A) as (_ & _ & Ft & _). congruence. }
      destruct Oa as [Ea|Oa], Ob as [Eb|Ob].
      * congruence.
      * eapply (Key a b); eauto.
      * eapply (Key b a); eauto.
      * eapply P; eauto.
Qed.

Lemma no_okdone_init : forall reqs f0 i, ~ okdone reqs (w_ws (init_world f0 reqs)) i.
Proof.
  intros reqs f0 i (r & h & _ & E & _). cbn [init_world w_ws] in E.
  rewrite nth_error_map in E. destruct (nth_error reqs i); discriminate.
Qed.

Lemma InvT_init : forall t reqs f0 sched, InvT t reqs (init_world f0 reqs) sched.
Proof.
  intros t reqs f0 sched. constructor.
  - intros (i & _ & O). exfalso. exact (no_okdone_init _ _ _ O).
  - intros i j _ _ _ O _. exact (no_okdone_init _ _ _ O).
Qed.

(* Of the writers whose If-Match can only be satisfied by the same tag, at
   most one is acknowledged, in every interleaving. *)
Theorem exclusive_same_tag : forall wr reqs f0 sched t i j,
  Fresh f0 sched -> i <> j -> holder t reqs i -> holder t reqs j ->
  okdone reqs (w_ws (run wr reqs f0 sched)) i ->
  okdone reqs (w_ws (run wr reqs f0 sched)) j -> False.
Proof.
  intros wr reqs f0 sched t i j F N Hi Hj Oi Oj.
  assert (I : InvL wr reqs f0 (run wr reqs f0 sched) /\ InvN f0 (run wr reqs f0 sched) [] /\
    InvT t reqs (run wr reqs f0 sched) []).
  { unfold run.
    apply (run_invariant (fun w rest => InvL wr reqs f0 w /\ InvN f0 w rest /\ InvT t reqs w rest)).
    - intros w k ns rest (A & B & C). split; [|split].
      + apply InvL_step. exact A.
      + apply InvN_step. exact B.
      + eapply InvT_step; eauto.
    - split; [apply InvL_init | split; [exact F | apply InvT_init]]. }
  destruct I as (_ & _ & [_ P]). eapply P; eauto.
Qed.

(* ------------------------------------------------------------ no lost update *)

(* what is known of every acknowledged write *)
Definition ev_sound (reqs : list req) (ev : event) : Prop :=
  exists r, nth_error reqs (ev_writer ev) = Some r /\ is_write r = true /\
    check_preconditions (req_method r) (ev_etag ev) (req_im r) (req_inm r) = CpNotDone /\
    (conditional r = true -> obj_tag r (ev_old ev) = ev_etag ev) /\
    (forall t, holds_tag t r -> t <> [] /\ file_tag (ev_old ev) = t) /\
    (ev_old ev = None -> ev_new ev <> None) /\ (ev_new ev = None -> ev_old ev <> None).

Lemma ev_ok_sound : forall wr reqs ev, ev_ok wr reqs ev -> ev_sound reqs ev.
Proof.
  intros wr reqs ev (r & ns & h & R & Wt & A). exists r.
  destruct (write_step_acked _ _ _ _ _ _ _ Wt A) as (Cp & Lk & W).
  destruct (locked_ok _ _ _ _ _ _ Lk W) as (Ho & _ & Hn1 & Hn2).
  repeat split; try assumption.
  - destruct (holder_acked _ _ _ _ _ _ _ _ H Wt A) as (_ & Tn & _). exact Tn.
  - destruct (holder_acked _ _ _ _ _ _ _ _ H Wt A) as (_ & _ & Ft & _). exact Ft.
Qed.

Lemma NoDup_map_inj : forall A B (f : A -> B) l,
  (forall x y, f x = f y -> x = y) -> NoDup l -> NoDup (map f l).
Proof.
  intros A B f l Hf. induction 1 as [|a l Hn Hd IH]; cbn [map]; constructor; [|exact IH].
  intro Hin. apply in_map_iff in Hin. destruct Hin as (y & E & Hy).
  apply Hf in E. subst y. contradiction.
Qed.

(* Every acknowledged write replaced exactly the version whose tag its writer
   had read (and, for a writer carrying If-Match, presented); the versions form
   a chain from the initial file to the current one; and all versions that
   ever existed carry pairwise different tags.  Hence a writer holding the tag
   of an older version can never replace a newer one. *)
Theorem no_lost_update : forall wr reqs f0 sched,
  Fresh f0 sched ->
  let w := run wr reqs f0 sched in
  Forall (ev_sound reqs) (w_log w) /\
  chainN f0 (w_log w) (w_file w) /\
  NoDup (map make_etag (vs f0 (w_log w))).
Proof.
  intros wr reqs f0 sched F w. subst w.
  destruct (run_InvL wr reqs f0 sched) as [_ C E].
  pose proof (run_InvN wr reqs f0 sched F) as N. unfold InvN in N.
  cbn [map] in N. rewrite app_nil_r in N.
  split; [|split].
  - eapply Forall_impl; [|exact E]. intros ev. apply ev_ok_sound.
  - exact C.
  - apply NoDup_map_inj; [apply make_etag_inj | exact N].
Qed.

(* ------------------------------------------------------------ If-None-Match: * *)

(* an If-None-Match value that every existing object matches *)
Definition star_only (inm : str) : Prop :=
  inm <> [] /\ forall e, e <> [] -> matches e inm.

Lemma star_is_star_only : star_only [42].
Proof.
  split; [discriminate|]. intros e He. split; [discriminate|]. right. right.
  split; [assumption|]. exact (offers_star [] [] (Forall_nil _)).
Qed.

(* a write carrying If-None-Match: * is acknowledged only if its object did
   not exist at the moment of the locked update (no hypothesis on stamps) *)
Theorem create_found_absent : forall wr reqs f0 sched ev r,
  In ev (w_log (run wr reqs f0 sched)) ->
  nth_error reqs (ev_writer ev) = Some r -> star_only (req_inm r) ->
  ev_etag ev = [] /\ obj_tag r (ev_old ev) = [].
Proof.
  intros wr reqs f0 sched ev r Hin R [Sn Sa].
  destruct (run_InvL wr reqs f0 sched) as [_ _ E].
  rewrite Forall_forall in E. specialize (E ev Hin).
  apply ev_ok_sound in E. destruct E as (r' & R' & W & Cp & Ho & _).
  rewrite R in R'. inv R'.
  pose proof (cp_notdone_inm _ _ _ _ Cp Sn) as Nm.
  assert (Ee : ev_etag ev = []).
  { destruct (ev_etag ev) as [|c e'] eqn:Q; [reflexivity|].
    exfalso. apply Nm. apply Sa. discriminate. }
  split; [exact Ee|]. rewrite <- Ee. apply Ho.
  destruct r'; cbn in W, Sn |- *; try reflexivity; try discriminate; congruence.
Qed.

Lemma obj_tag_put_group_absent : forall im inm d f,
  obj_tag (PutGroup im inm d) f = [] -> f = None.
Proof.
  intros im inm d f H. unfold obj_tag in H. cbn [read_step] in H.
  destruct f as [[c s]|]; [|reflexivity]. cbn [file_tag] in H.
  exfalso. exact (make_etag_nonempty _ H).
Qed.

Definition is_none (f : file) : bool := match f with None => true | Some _ => false end.
Definition n_created (log : list event) : nat := length (filter (fun ev => is_none (ev_old ev)) log).
Definition n_deleted (log : list event) : nat := length (filter (fun ev => is_none (ev_new ev)) log).
Definition b2n (b : bool) : nat := if b then 1%nat else 0%nat.

Lemma created_deleted_balance : forall reqs f0 log cur,
  chainN f0 log cur -> Forall (ev_sound reqs) log ->
  (n_created log + b2n (is_none cur) = n_deleted log + b2n (is_none f0))%nat.
Proof.
  intros reqs f0. induction log as [|ev log IH]; intros cur C E; cbn [chainN] in C.
  - subst. reflexivity.
  - destruct C as [En C]. inv E. specialize (IH _ C H2).
    destruct H1 as (r & _ & _ & _ & _ & _ & N1 & N2).
    unfold n_created, n_deleted in *. cbn [filter].
    destruct (ev_old ev) as [x|] eqn:Eo, (ev_new ev) as [y|] eqn:Ew;
      cbn [is_none length b2n] in *; lia.
Qed.

(* the file is created (by a PUT finding it absent) at most once more than it
   is deleted: with no deletion, "If-None-Match: *" creates at most once *)
Theorem creations_bounded : forall wr reqs f0 sched,
  let log := w_log (run wr reqs f0 sched) in
  (n_created log <= n_deleted log + b2n (is_none f0))%nat.
Proof.
  intros wr reqs f0 sched log. subst log.
  destruct (run_InvL wr reqs f0 sched) as [_ C E].
  assert (E' : Forall (ev_sound reqs) (w_log (run wr reqs f0 sched))).
  { eapply Forall_impl; [|exact E]. intros ev. apply ev_ok_sound. }
  pose proof (created_deleted_balance _ _ _ _ C E'). lia.
Qed.

(* ------------------------------------------------------------ witnesses *)

Lemma holder_single : forall s inm d reqs i,
  nth_error reqs i = Some (PutGroup (make_etag s) inm d) -> holder (make_etag s) reqs i.
Proof.
  intros s inm d reqs i H. eexists. split; [exact H|]. split.
  - cbn [req_im]. apply make_etag_nonempty.
  - cbn [req_im]. intros e M. eapply matches_single_tag; [apply make_etag_entity | exact M].
Qed.

Definition adjacent_differ (l : list stamp) : Prop :=
  forall k a b, nth_error l k = Some a -> nth_error l (S k) = Some b -> a <> b.

(* stamps differing between successive versions only: v1 (10,100), v2 (11,100),
   v3 (10,100) again; the holders of the tag of v1 are writers 0 and 2 *)
Lemma successive_stamps_insufficient :
  exists reqs f0 sched t,
    adjacent_differ (vs f0 (w_log (run true reqs f0 sched))) /\
    holder t reqs 0%nat /\ holder t reqs 2%nat /\
    okdone reqs (w_ws (run true reqs f0 sched)) 0%nat /\
    okdone reqs (w_ws (run true reqs f0 sched)) 2%nat.
Proof.
  exists [PutGroup (make_etag (10, 100)) [] 1; PutGroup [] [] 2; PutGroup (make_etag (10, 100)) [] 3],
         (Some (mkContent 7 [] None 0, (10, 100))),
         [(0%nat, (0, 0)); (0%nat, (11, 100)); (1%nat, (0, 0)); (1%nat, (10, 100));
          (2%nat, (0, 0)); (2%nat, (12, 100))],
         (make_etag (10, 100)).
  split; [|split; [|split; [|split]]].
  - vm_compute. intros k a b Ha Hb.
    destruct k as [|[|[|[|k]]]]; cbn in Ha, Hb; try discriminate;
      inversion Ha; inversion Hb; subst; discriminate.
  - eapply holder_single. reflexivity.
  - eapply holder_single. reflexivity.
  - eexists _, _. vm_compute. repeat split; reflexivity.
  - eexists _, _. vm_compute. repeat split; reflexivity.
Qed.

Lemma example_run :
  let c0 := mkContent 7 [] None 0 in
  let f0 : file := Some (c0, (10, 100)) in
  let t0 := make_etag (10, 100) in
  let reqs := [PutGroup t0 [] 1; PutGroup t0 [] 2; PutUser (TUser 1) [] [42] 3] in
  let sched := [(0%nat, (1, 1)); (1%nat, (1, 2)); (0%nat, (11, 101)); (1%nat, (11, 102));
                (2%nat, (1, 5)); (2%nat, (40, 103))] in
  let w := run true reqs f0 sched in
  Fresh f0 sched /\ holder t0 reqs 0%nat /\ holder t0 reqs 1%nat /\
  star_only (req_inm (PutUser (TUser 1) [] [42] 3)) /\
  okdone reqs (w_ws w) 0%nat /\
  nth_error (w_ws w) 1%nat = Some (WDone (HRes RMismatch false)) /\
  okdone reqs (w_ws w) 2%nat /\
  w_file w = Some (mkContent 1 [(1, mkUser 3 0)] None 0, (40, 103)) /\
  length (w_log w) = 2%nat.
Proof.
  cbv zeta. split; [|split; [|split; [|split; [|split; [|split; [|split; [|split]]]]]]].
  - unfold Fresh. cbn [stamp_of map snd app].
    repeat (constructor; [cbn [In]; intuition congruence|]). constructor.
  - eapply holder_single. reflexivity.
  - eapply holder_single. reflexivity.
  - exact star_is_star_only.
  - eexists _, _. vm_compute. repeat split; reflexivity.
  - vm_compute. reflexivity.
  - eexists _, _. vm_compute. repeat split; reflexivity.
  - vm_compute. reflexivity.
  - vm_compute. reflexivity.
Qed.

(* ------------------------------------------------------------ the tag served with a definition *)

(* all versions that ever existed, newest first *)
Definition versions (f0 : file) (log : list event) : list file := map ev_new log ++ [f0].

Lemma vs_versions : forall f0 log, vs f0 log = flat_map stamp_of (versions f0 log).
Proof.
  intros f0 log. unfold vs, versions. rewrite flat_map_app. cbn [flat_map].
  rewrite app_nil_r. f_equal. induction log as [|ev log IH]; cbn [flat_map map]; congruence.
Qed.

Lemma nodup_stamps_content : forall (vl : list file) c1 c2 s,
  NoDup (flat_map stamp_of vl) ->
  In (Some (c1, s)) vl -> In (Some (c2, s)) vl -> c1 = c2.
Proof.
  induction vl as [|v vl IH]; intros c1 c2 s N H1 H2; [contradiction|].
  cbn [flat_map] in N.
  assert (Tail : forall c, In (Some (c, s)) vl -> In s (flat_map stamp_of vl)).
  { intros c H. apply in_flat_map. exists (Some (c, s)). split; [exact H | left; reflexivity]. }
  destruct H1 as [E1|H1], H2 as [E2|H2].
  - congruence.
  - subst v. cbn [stamp_of app] in N. inversion N as [|? ? Hn Hd]; subst.
    exfalso. apply Hn. eapply Tail; eauto.
  - subst v. cbn [stamp_of app] in N. inversion N as [|? ? Hn Hd]; subst.
    exfalso. apply Hn. eapply Tail; eauto.
  - apply (IH c1 c2 s); try assumption.
    destruct v as [[c s']|]; cbn [stamp_of app] in N;
      [inversion N as [|? ? Hn Hd]; subst|]; assumption.
Qed.

Lemma chain_cur_version : forall f0 log cur, chainN f0 log cur -> In cur (versions f0 log).
Proof.
  intros f0 log cur C. unfold versions. destruct log as [|ev log]; cbn [chainN] in C.
  - subst. left. reflexivity.
  - destruct C as [E _]. subst cur. left. reflexivity.
Qed.

(* What a reader gets (definition and tag from one open file) is a version
   that was written, with the tag of that very version; and among all
   versions that ever existed a tag belongs to one definition only.  So a tag
   served with a definition identifies that definition. *)
Theorem content_matches_tag : forall wr reqs f0 sched,
  Fresh f0 sched ->
  let w := run wr reqs f0 sched in
  (forall c t, read_description (w_file w) = Some (c, t) ->
     exists s, In (Some (c, s)) (versions f0 (w_log w)) /\ t = make_etag s) /\
  (forall c1 s1 c2 s2,
     In (Some (c1, s1)) (versions f0 (w_log w)) ->
     In (Some (c2, s2)) (versions f0 (w_log w)) ->
     make_etag s1 = make_etag s2 -> c1 = c2 /\ s1 = s2).
Proof.
  intros wr reqs f0 sched F w. subst w.
  destruct (run_InvL wr reqs f0 sched) as [_ C _].
  pose proof (run_InvN wr reqs f0 sched F) as N. unfold InvN in N.
  cbn [map] in N. rewrite app_nil_r, vs_versions in N.
  split.
  - intros c t H. destruct (w_file (run wr reqs f0 sched)) as [[c' s]|] eqn:E; [|discriminate].
    cbn [read_description] in H. inv H. exists s. split; [|reflexivity].
    apply chain_cur_version. exact C.
  - intros c1 s1 c2 s2 H1 H2 Et. apply make_etag_inj in Et. subst s2.
    split; [|reflexivity]. eapply nodup_stamps_content; eauto.
Qed.

(* ------------------------------------------------------------ the in-memory copy of a loaded group *)

Lemma stamp_eqb_eq : forall a b, stamp_eqb a b = true -> a = b.
Proof.
  intros [a1 a2] [b1 b2] H. unfold stamp_eqb in H. cbn [fst snd] in H.
  apply andb_true_iff in H. destruct H as [H1 H2].
  apply Z.eqb_eq in H1. apply Z.eqb_eq in H2. subst. reflexivity.
Qed.

(* Whatever earlier version of the file the running server holds in memory,
   GetDescription returns the CURRENT definition: the cached copy is used only
   when it is the current version. *)
Theorem cache_transparent : forall wr reqs f0 sched cache,
  Fresh f0 sched ->
  let w := run wr reqs f0 sched in
  In cache (versions f0 (w_log w)) ->
  get_description cache (w_file w) = w_file w.
Proof.
  intros wr reqs f0 sched cache F w Hc. subst w.
  destruct (content_matches_tag wr reqs f0 sched F) as [_ U].
  destruct (run_InvL wr reqs f0 sched) as [_ C _].
  pose proof (chain_cur_version _ _ _ C) as Hcur.
  unfold get_description. destruct cache as [[cc cs]|]; [|reflexivity].
  unfold description_unchanged.
  destruct (w_file (run wr reqs f0 sched)) as [[c s]|] eqn:E; [|reflexivity].
  cbn [snd]. destruct (stamp_eqb s cs) eqn:Q; [|reflexivity].
  apply stamp_eqb_eq in Q. subst cs.
  destruct (U cc s c s Hc Hcur eq_refl) as [Ec _]. subst. reflexivity.
Qed.

(* C02/C03/C04 at the level of rtpDownTrack.Write and gotNACK (Model/Forward.v). *)
From Coq Require Import ZArith List Bool Lia.
From Coq Require Import ZifyBool.
From Galene Require Import Lib.Word Generated.Consts.
From Galene Require Import Model.PacketMap Model.Layers Model.Rewrite Model.Cache Model.Forward.
From Galene Require Import Proofs.RewriteSafe Proofs.Layers Proofs.CacheSound.
Import ListNotations.
Open Scope Z_scope.

Definition bytes_ok (buf : list Z) : Prop := forall b, In b buf -> 0 <= b < 256.

(* the decision of the layer part, for the current state *)
Definition write_decision (st : fstate) (f : flags) : layer * bool * bool :=
  write_layer (unpack (fs_layer st)) f (fs_rate8 st) (fs_max st).

(* C04: a packet above the selected layers that arrives in order is withheld *)
Lemma write_withholds vp8 st f buf :
  m_started (fs_map st) = true -> f_seqno f = m_next (fs_map st) ->
  snd (fst (write_decision st f)) = true ->
  snd (fst (write vp8 st f buf)) = WNone.
Proof.
  intros Hst Hseq Hd. unfold write, write_decision in *.
  destruct (write_layer (unpack (fs_layer st)) f (fs_rate8 st) (fs_max st)) as [[l3 drop] kf].
  cbn [fst snd] in Hd. subst drop.
  unfold pm_drop. rewrite Hst, Hseq. cbn [negb orb].
  replace (m_next (fs_map st) =? m_next (fs_map st)) with true by lia. cbn [negb].
  reflexivity.
Qed.

(* the new layer word is the one the layer part computes, whatever happens
   to the packet *)
Lemma write_layer_word vp8 st f buf :
  fs_layer (fst (fst (write vp8 st f buf))) = pack (fst (fst (write_decision st f))).
Proof.
  unfold write, write_decision.
  destruct (write_layer _ f _ _) as [[l3 drop] kf].
  destruct (if drop then _ else _) as [dropped m1].
  destruct dropped; [reflexivity|].
  destruct (pm_map m1 (f_seqno f) (f_pid f)) as [[[ok newseq] piddelta] m2].
  destruct (negb ok); [reflexivity|].
  destruct (_ && _ && _); [reflexivity|].
  destruct (rewrite _ _ _ _ _); reflexivity.
Qed.

(* C12/C02: Write never reads or writes out of bounds; what it sends has the
   length of what it received and differs from it at most in byte 1's top bit
   (only ever set, and only when End, Sid = forwarded spatial layer and the
   marker was not set), bytes 2-3 and (VP8) the two picture-id bytes *)
Lemma write_sent_spec vp8 st f buf : bytes_ok buf ->
  let l3 := fst (fst (write_decision st f)) in
  match snd (fst (write vp8 st f buf)) with
  | WPanic => False
  | WSent d =>
      same_except (if vp8 then [payload_offset buf + 3; payload_offset buf + 2; 3; 2; 1] else [3; 2; 1]) buf d /\
      (nth 1 d 0 = nth 1 buf 0 \/
       (nth 1 d 0 = nth 1 buf 0 + 128 /\ hibit (nth 1 buf 0) = false /\
        f_end f = true /\ f_sid f = sid l3 /\ f_marker f = false))
  | _ => True
  end.
Proof.
  intros Hb. unfold write, write_decision.
  destruct (write_layer _ f _ _) as [[l3 drop] kf]. cbn [fst snd].
  destruct (if drop then pm_drop (fs_map st) (f_seqno f) (f_pid f) else (false, fs_map st)) as [dropped m1].
  destruct dropped; [exact I|].
  destruct (pm_map m1 (f_seqno f) (f_pid f)) as [[[ok newseq] piddelta] m2].
  destruct (negb ok); [exact I|].
  destruct (negb _ && (newseq =? f_seqno f) && (piddelta =? 0)); cbn [fst snd].
  - split; [apply same_except_refl|left; reflexivity].
  - set (sm := (f_sid f =? sid l3) && f_end f && negb (f_marker f)).
    pose proof (rewrite_spec vp8 buf sm newseq (w16 (- piddelta)) Hb) as H.
    destruct (rewrite vp8 buf sm newseq (w16 (- piddelta))) as [d| |] eqn:Er; cbn [fst snd]; auto.
    split; [exact H|].
    destruct (rewrite_values vp8 buf sm newseq (w16 (- piddelta)) d Hb Er) as (H1 & _).
    destruct (sm && negb (hibit (nth 1 buf 0))) eqn:E; [|left; exact H1].
    right. apply andb_prop in E. destruct E as (E1 & E2). unfold sm in E1.
    apply andb_prop in E1. destruct E1 as (E1 & E3). apply andb_prop in E1. destruct E1 as (E1 & E4).
    repeat split; auto; try lia.
    + destruct (hibit (nth 1 buf 0)); [discriminate|reflexivity].
    + destruct (f_marker f); [discriminate|reflexivity].
Qed.

(* C03: the source packet of a retransmission is exactly what the cache
   holds for the number that Reverse names: gotNACK hands those bytes, and
   nothing else, to Write *)
Lemma nack1_source vp8 st o st' rs stop :
  nack1 vp8 st o = (st', rs, stop) ->
  rs = [] \/
  exists s p n bytes,
    pm_reverse (fs_map st) o = (true, s, p) /\ get (fs_cache st) s = (n, bytes) /\ n <> 0 /\
    (rs = [WPanic] \/ exists f, find_flags s (fs_flags st) = Some f /\
                                rs = [snd (fst (write vp8 st f bytes))]).
Proof.
  unfold nack1. destruct (pm_reverse (fs_map st) o) as [[ok s] p].
  destruct ok; cbn [negb]; [|intros H; inversion H; left; reflexivity].
  destruct (get (fs_cache st) s) as [n bytes] eqn:Eg.
  destruct (n =? 0) eqn:En; [intros H; inversion H; left; reflexivity|].
  intros H. right. exists s, p, n, bytes. split; [reflexivity|]. split; [exact Eg|]. split; [lia|].
  destruct (find_flags s (fs_flags st)) as [f|]; [|inversion H; left; reflexivity].
  right. exists f. split; [reflexivity|].
  destruct (write vp8 st f bytes) as [[st2 r] k]. inversion H. reflexivity.
Qed.

(* C01 at the level of the bytes sent: the number carried by a forwarded
   packet is the one the packet map assigned *)
Lemma write_number vp8 st f buf d : bytes_ok buf ->
  nth 2 buf 0 * 256 + nth 3 buf 0 = f_seqno f ->
  snd (fst (write vp8 st f buf)) = WSent d ->
  exists m1 newseq pd m2,
    (m1 = fs_map st \/ exists p, pm_drop (fs_map st) (f_seqno f) (f_pid f) = (false, m1) /\ p = tt) /\
    pm_map m1 (f_seqno f) (f_pid f) = ((true, newseq, pd), m2) /\
    (0 <= newseq < 65536 -> nth 2 d 0 * 256 + nth 3 d 0 = newseq).
Proof.
  intros Hb Hseq. unfold write.
  destruct (write_layer _ f _ _) as [[l3 drop] kf].
  destruct (if drop then pm_drop (fs_map st) (f_seqno f) (f_pid f) else (false, fs_map st))
    as [dropped m1] eqn:Ed.
  destruct dropped; [cbn; discriminate|].
  destruct (pm_map m1 (f_seqno f) (f_pid f)) as [[[ok newseq] piddelta] m2] eqn:Em.
  destruct ok; cbn [negb]; [|cbn; discriminate].
  assert (Hm1 : m1 = fs_map st \/ exists p, pm_drop (fs_map st) (f_seqno f) (f_pid f) = (false, m1) /\ p = tt).
  { destruct drop; [right; exists tt; auto|left; inversion Ed; reflexivity]. }
  destruct (negb _ && (newseq =? f_seqno f) && (piddelta =? 0)) eqn:Esame; cbn [fst snd].
  - intros H. inversion H; subst d. exists m1, newseq, piddelta, m2.
    split; [exact Hm1|]. split; [exact Em|]. intros _.
    apply andb_prop in Esame. destruct Esame as (E1 & _). apply andb_prop in E1. destruct E1 as (_ & E2).
    lia.
  - destruct (rewrite vp8 buf _ newseq (w16 (- piddelta))) as [d'| |] eqn:Er; cbn [fst snd]; try discriminate.
    intros H. inversion H; subst d'. exists m1, newseq, piddelta, m2.
    split; [exact Hm1|]. split; [exact Em|]. intros Hr.
    destruct (rewrite_values vp8 buf _ newseq (w16 (- piddelta)) d Hb Er) as (_ & H2 & H3).
    rewrite H2, H3. lia.
Qed.

(* C07, layer 2: what a step may SEND.  [sends_only P w w']: every client's
   outbox in w' is its outbox in w followed by messages that satisfy P.
   The statements about `offer` and `close` messages (label_identity,
   close_only_when) are instances. *)
From Coq Require Import List Bool Arith PeanoNat Lia.
From Galene Require Import Model.Subscribe Proofs.SubscribeFrame Proofs.SubscribeInv.
Import ListNotations.

Definition sends_only (P : nat -> outmsg -> Prop) (w w' : world) : Prop :=
  forall m, exists l, c_out (w_cl w' m) = c_out (w_cl w m) ++ l /\ Forall (P m) l.

Definition out_same (w w' : world) : Prop :=
  forall m, c_out (w_cl w' m) = c_out (w_cl w m).

(* P holds of everything that is neither an offer nor a close *)
Definition benign (P : nat -> outmsg -> Prop) : Prop :=
  forall m, (forall id, P m (OAbort id)) /\ P m OError /\ (forall id, P m (OAnswer id)).

Lemma so_refl : forall P w, sends_only P w w.
Proof. intros P w m. exists []. rewrite app_nil_r. split; [reflexivity|constructor]. Qed.

Lemma so_trans : forall P a b c, sends_only P a b -> sends_only P b c -> sends_only P a c.
Proof.
  intros P a b c H1 H2 m. destruct (H1 m) as [l1 [E1 F1]]. destruct (H2 m) as [l2 [E2 F2]].
  exists (l1 ++ l2). split; [rewrite E2, E1, app_assoc; reflexivity|apply Forall_app; auto].
Qed.

Lemma so_same : forall P w w', out_same w w' -> sends_only P w w'.
Proof.
  intros P w w' H m. exists []. rewrite app_nil_r. split; [apply H|constructor].
Qed.

Lemma so_send : forall (P : nat -> outmsg -> Prop) w m x, P m x -> sends_only P w (send m x w).
Proof.
  intros P w m x H c. autorewrite with sub. destruct (Nat.eqb_spec c m).
  - subst. exists [x]. split; [reflexivity|constructor; [exact H|constructor]].
  - exists []. split; [reflexivity|constructor].
Qed.

Lemma os_refl : forall w, out_same w w.
Proof. intros w m. reflexivity. Qed.

Lemma os_trans : forall a b c, out_same a b -> out_same b c -> out_same a c.
Proof. intros a b c H1 H2 m. rewrite H2, H1. reflexivity. Qed.

Lemma os_upd_cl : forall c f w, (forall x, c_out (f x) = c_out x) -> out_same w (upd_cl c f w).
Proof. intros c f w H m. unfold upd_cl. simpl. destruct (Nat.eqb m c); [apply H|reflexivity]. Qed.

Lemma os_enq : forall m a w, out_same w (enq m a w).
Proof. intros m a w c. autorewrite with sub. reflexivity. Qed.

Lemma os_enq_all : forall ts a w, out_same w (enq_all ts a w).
Proof. intros ts a w c. autorewrite with sub. reflexivity. Qed.

Lemma os_del_down : forall m id w, out_same w (del_down m id w).
Proof. intros m id w c. autorewrite with sub. reflexivity. Qed.

Lemma os_set_down_entry : forall m d w, out_same w (set_down_entry m d w).
Proof. intros m d w c. autorewrite with sub. reflexivity. Qed.

Lemma os_upd_up : forall u f w, out_same w (upd_up u f w).
Proof. intros u f w c. reflexivity. Qed.

Lemma os_set_timers : forall ts w, out_same w (set_timers ts w).
Proof. intros ts w c. reflexivity. Qed.

Lemma os_del_up_conn' : forall c id push w, out_same w (del_up_conn' c id push w).
Proof.
  intros c id push w m. unfold del_up_conn', del_up_conn.
  destruct (lookup id (c_up (w_cl w c))); [|reflexivity].
  destruct push; [destruct (c_group (w_cl w c))|]; autorewrite with sub;
    unfold upd_cl; simpl; destruct (Nat.eqb m c); reflexivity.
Qed.

Lemma os_leave_fold : forall c l w, out_same w (leave_fold c l w).
Proof.
  induction l as [|x r IH]; intros w; [apply os_refl|]. simpl.
  eapply os_trans; [apply os_del_up_conn'|apply IH].
Qed.

Lemma os_leave_group : forall c w, out_same w (leave_group c w).
Proof.
  intros c w. unfold leave_group. destruct (c_group (w_cl w c)); [|apply os_refl].
  eapply os_trans; [apply (os_leave_fold c)|]. apply os_upd_cl. reflexivity.
Qed.

Lemma os_error_close : forall c w, out_same w (error_close c w).
Proof.
  intros. unfold error_close. eapply os_trans; [apply os_leave_group|]. apply os_upd_cl. reflexivity.
Qed.

Lemma os_new_up_conn : forall c id label g w, out_same w (new_up_conn c id label g w).
Proof.
  intros c id label g w m. unfold new_up_conn, new_timer. simpl. destruct (Nat.eqb m c); reflexivity.
Qed.

Lemma so_fail_up : forall P w c id, benign P -> sends_only P w (fail_up c id w).
Proof.
  intros P w c id HB. destruct (HB c) as [B1 [B2 B3]]. unfold fail_up.
  eapply so_trans; [apply so_send; apply B1|apply so_send; exact B2].
Qed.

Lemma so_finish : forall P c w r, sends_only P w (fst r) -> sends_only P w (finish c r).
Proof.
  intros P c w [w' e] H. unfold finish. simpl in *. destruct e; [|exact H].
  eapply so_trans; [exact H|]. apply so_same. apply os_error_close.
Qed.

(* ---- gotOffer: only benign messages *)

Lemma so_offer_tail : forall P w c id replace u s, benign P -> sends_only P w (offer_tail c id replace u s w).
Proof.
  intros P w c id replace u s HB. unfold offer_tail.
  set (w2 := if Nat.eqb replace 0 then w else _).
  assert (S2 : sends_only P w w2).
  { unfold w2. destruct (Nat.eqb replace 0); [apply so_refl|]. apply so_same.
    eapply os_trans; [apply (os_upd_up u)|apply os_del_up_conn']. }
  destruct (HB c) as [_ [_ B3]].
  destruct s; [destruct (uo_closed (w_up w2 u))|..];
    (eapply so_trans; [exact S2|]); try (apply so_fail_up; exact HB); apply so_send; apply B3.
Qed.

Lemma so_got_offer : forall P w c id label replace s, benign P -> sends_only P w (got_offer c id label replace s w).
Proof.
  intros P w c id label replace s HB. unfold got_offer.
  destruct (get_down id (c_down (w_cl w c))); [apply so_fail_up; exact HB|].
  destruct (lookup id (c_up (w_cl w c))); [apply so_offer_tail; exact HB|].
  destruct s; destruct (c_group (w_cl w c)); try (apply so_fail_up; exact HB);
    (eapply so_trans; [apply so_same; apply os_new_up_conn|apply so_offer_tail; exact HB]).
Qed.

(* ---- pushDownConn *)

(* the request under which pushDownConn evaluates the stream *)
Definition push_req (w : world) (m u replace : nat) : list rk :=
  let c := w_cl w m in
  match get_down (if Nat.eqb replace 0 then uo_id (w_up w u) else replace) (c_down c) with
  | Some d => match d_req d with
              | Some r => r
              | None => base_req c (uo_label (w_up w u))
              end
  | None => base_req c (uo_label (w_up w u))
  end.

Definition offer_of (w : world) (id u replace : nat) : outmsg :=
  OOffer id (uo_label (w_up w u)) replace (uo_owner (w_up w u)) (c_user (w_cl w (uo_owner (w_up w u)))).

Lemma so_close_down_conn : forall (P : nat -> outmsg -> Prop) w m id msg,
  benign P -> P m (OClose id) -> sends_only P w (close_down_conn m id msg w).
Proof.
  intros P w m id msg HB Hc. unfold close_down_conn. destruct (HB m) as [_ [B2 _]].
  assert (S1 : sends_only P w (send m (OClose id) (del_down m id w))).
  { eapply so_trans; [apply so_same; apply os_del_down|apply so_send; exact Hc]. }
  destruct msg; [|exact S1]. eapply so_trans; [exact S1|apply so_send; exact B2].
Qed.

Lemma so_negotiate : forall (P : nat -> outmsg -> Prop) w m d r,
  (d_havelocal d = false -> P m (offer_of w (d_id d) (d_remote d) r)) ->
  sends_only P w (negotiate m d r w).
Proof.
  intros P w m d r H. unfold negotiate. destruct (d_havelocal d).
  - apply so_same. apply os_set_down_entry.
  - eapply so_trans; [apply so_same; apply os_set_down_entry|].
    apply so_send. apply H. reflexivity.
Qed.

Lemma so_push_down_conn : forall (P : nat -> outmsg -> Prop) w m id up ts r,
  benign P ->
  (* close of the pushed stream: the publisher deleted it, or nothing of it is requested *)
  ((up = None \/ exists u, up = Some u /\ fst (requested_tracks (push_req w m u r) ts) = []) ->
   P m (OClose id)) ->
  (* close of the replaced stream *)
  (r <> 0 -> P m (OClose r)) ->
  (* the offer: for the down connection with the id of the object *)
  (forall u x, up = Some u -> fst (requested_tracks (push_req w m u r) ts) <> [] ->
     (x = u \/ exists d, get_down (uo_id (w_up w u)) (c_down (w_cl w m)) = Some d /\ d_remote d = x) ->
     P m (offer_of w (uo_id (w_up w u)) x r)) ->
  sends_only P w (fst (push_down_conn m id up ts r w)).
Proof.
  intros P w m id up ts r HB Hclose Hrep Hoff. unfold push_down_conn.
  set (w1 := if Nat.eqb r 0 then w else del_down m r w).
  assert (S1 : sends_only P w w1).
  { unfold w1. destruct (Nat.eqb r 0); [apply so_refl|apply so_same; apply os_del_down]. }
  assert (Hdef : forall w', sends_only P w w' ->
            sends_only P w (if Nat.eqb r 0 then w' else close_down_conn m r false w')).
  { intros w' S'. destruct (Nat.eqb_spec r 0); [exact S'|].
    eapply so_trans; [exact S'|]. apply so_close_down_conn; auto. }
  destruct up as [u|].
  - fold (push_req w m u r).
    destruct (fst (requested_tracks (push_req w m u r) ts)) as [|i0 sel] eqn:Esel.
    + cbn [fst]. apply Hdef. eapply so_trans; [exact S1|]. apply so_close_down_conn; auto.
      apply Hclose. right. exists u. auto.
    + assert (U1 : w_up w1 = w_up w) by (unfold w1; destruct (Nat.eqb r 0); reflexivity).
      unfold add_down_conn. rewrite U1.
      destruct (lookup (uo_id (w_up w u)) (c_up (w_cl w1 m))); [cbn [fst]; apply Hdef; exact S1|].
      assert (Hoff' : forall x, (x = u \/ exists d, get_down (uo_id (w_up w u)) (c_down (w_cl w m)) = Some d /\ d_remote d = x) ->
                 P m (offer_of w (uo_id (w_up w u)) x r)).
      { intros x Hx. apply Hoff; auto. rewrite Esel. discriminate. }
      destruct (get_down (uo_id (w_up w u)) (c_down (w_cl w1 m))) as [d0|] eqn:Eg.
      * rewrite Eg. destruct (replace_tracks d0 _ _) as [changed d'] eqn:Er.
        destruct (replace_tracks_same _ _ _ _ _ Er) as [R1 [R2 R3]].
        assert (S3 : sends_only P w (set_down_entry m d' w1)).
        { eapply so_trans; [exact S1|apply so_same; apply os_set_down_entry]. }
        destruct changed; cbn [fst]; [|apply Hdef; exact S3].
        eapply so_trans; [exact S3|]. apply so_negotiate. intros _.
        destruct (get_down_in _ _ _ Eg) as [Hin Hid].
        assert (E : offer_of (set_down_entry m d' w1) (d_id d') (d_remote d') r =
                    offer_of w (uo_id (w_up w u)) (d_remote d0) r).
        { unfold offer_of. autorewrite with sub. rewrite U1, R1, R2, Hid.
          assert (C : forall x, c_user (w_cl w1 x) = c_user (w_cl w x)).
          { intro x. unfold w1. destruct (Nat.eqb r 0); [reflexivity|]. autorewrite with sub. reflexivity. }
          rewrite C. reflexivity. }
        rewrite E. apply Hoff'. right.
        (* d0 was already there before the replaced stream was deleted *)
        assert (Eg0 : get_down (uo_id (w_up w u)) (c_down (w_cl w m)) = Some d0).
        { revert Eg. unfold w1. destruct (Nat.eqb_spec r 0); [auto|]. autorewrite with sub.
          rewrite Nat.eqb_refl. destruct (Nat.eqb_spec (uo_id (w_up w u)) r).
          - rewrite e. rewrite get_down_remove_same. discriminate.
          - rewrite get_down_remove_other; auto. }
        exists d0. auto.
      * destruct (uo_closed (w_up w u)); [cbn [fst]; apply Hdef; exact S1|].
        set (dn := mkDown (uo_id (w_up w u)) u None [] false false false).
        set (w2 := upd_cl m (fun c => set_down (c_down c ++ [dn]) c) w1).
        assert (Eg2 : get_down (uo_id (w_up w u)) (c_down (w_cl w2 m)) = Some dn).
        { unfold w2, upd_cl. simpl. rewrite Nat.eqb_refl. simpl. rewrite get_down_app, Eg. simpl.
          rewrite Nat.eqb_refl. reflexivity. }
        rewrite Eg2. destruct (replace_tracks dn _ _) as [changed d'] eqn:Er.
        destruct (replace_tracks_same _ _ _ _ _ Er) as [R1 [R2 R3]].
        assert (S2 : sends_only P w w2).
        { eapply so_trans; [exact S1|]. apply so_same. apply os_upd_cl. reflexivity. }
        assert (S3 : sends_only P w (set_down_entry m d' w2)).
        { eapply so_trans; [exact S2|apply so_same; apply os_set_down_entry]. }
        destruct changed; cbn [fst]; [|apply Hdef; exact S3].
        eapply so_trans; [exact S3|]. apply so_negotiate. intros _.
        assert (E : offer_of (set_down_entry m d' w2) (d_id d') (d_remote d') r =
                    offer_of w (uo_id (w_up w u)) u r).
        { unfold offer_of. rewrite R1, R2. simpl d_id. simpl d_remote.
          change (w_up (set_down_entry m d' w2)) with (w_up w1). rewrite U1.
          assert (C : forall x, c_user (w_cl (set_down_entry m d' w2) x) = c_user (w_cl w x)).
          { intro x. autorewrite with sub. unfold w2, upd_cl. simpl.
            destruct (Nat.eqb x m); simpl; unfold w1; destruct (Nat.eqb r 0); autorewrite with sub; reflexivity. }
          rewrite C. reflexivity. }
        rewrite E. apply Hoff'. left. reflexivity.
  - cbn [fst]. apply Hdef. eapply so_trans; [exact S1|]. apply so_close_down_conn; auto.
Qed.

(* ---- what one step sends *)

Definition step_sends (w : world) (o : op) (m : nat) (x : outmsg) : Prop :=
  match x with
  | OClose id =>
      match o with
      | OpMsg c (MAbort id') => c = m /\ id' = id
      | OpMsg c (MAnswer id' ok) => c = m /\ id' = id
      | OpPump c =>
          c = m /\
          exists g id' up ts r q,
            c_queue (w_cl w m) = APush g id' up ts r :: q /\ c_group (w_cl w m) = Some g /\
            ((id = id' /\ (up = None \/
                           exists u, up = Some u /\ fst (requested_tracks (push_req w m u r) ts) = [])) \/
             (id = r /\ r <> 0))
      | _ => False
      end
  | OOffer id lab rep src usr =>
      match o with
      | OpMsg c (MAnswer id' ok) =>
          c = m /\ id' = id /\
          exists d, get_down id (c_down (w_cl w m)) = Some d /\ x = offer_of w id (d_remote d) 0
      | OpPump c =>
          c = m /\
          exists g id' u ts r q,
            c_queue (w_cl w m) = APush g id' (Some u) ts r :: q /\ c_group (w_cl w m) = Some g /\
            id = uo_id (w_up w u) /\ fst (requested_tracks (push_req w m u r) ts) <> [] /\
            exists x', (x' = u \/ exists d, get_down id (c_down (w_cl w m)) = Some d /\ d_remote d = x') /\
                       x = offer_of w id x' r
      | _ => False
      end
  | _ => True
  end.

Lemma benign_step_sends : forall w o, benign (step_sends w o).
Proof. intros w o m. repeat split. Qed.

Lemma so_weaken : forall (P Q : nat -> outmsg -> Prop) w w',
  (forall m x, P m x -> Q m x) -> sends_only P w w' -> sends_only Q w w'.
Proof.
  intros P Q w w' H S m. destruct (S m) as [l [E F]]. exists l. split; [exact E|].
  eapply Forall_impl; [|exact F]. apply H.
Qed.

Definition only_benign (m : nat) (x : outmsg) : Prop :=
  match x with OClose _ | OOffer _ _ _ _ _ => False | _ => True end.

Lemma benign_only_benign : benign only_benign.
Proof. intro m. repeat split. Qed.

Lemma only_benign_step_sends : forall w o m x, only_benign m x -> step_sends w o m x.
Proof. intros w o m x. destruct x; simpl; tauto. Qed.

Lemma so_unpresent_fold : forall P m l w, benign P -> sends_only P w (unpresent_fold m l w).
Proof.
  induction l as [|x r IH]; intros w HB; [apply so_refl|]. simpl.
  eapply so_trans; [|apply IH; exact HB].
  pose proof (os_del_up_conn' m (fst x) true w) as H. unfold del_up_conn' in H.
  destruct (del_up_conn m (fst x) true w); [apply so_refl|].
  eapply so_trans; [apply so_same; exact H|apply so_fail_up; exact HB].
Qed.

Lemma os_reqconns_fold : forall g t id l w, out_same w (reqconns_fold g t id l w).
Proof.
  induction l as [|x r IH]; intros w; [apply os_refl|]. simpl.
  destruct (negb (Nat.eqb id 0) && negb (Nat.eqb id (fst x))); [apply IH|].
  eapply os_trans; [apply os_enq|apply IH].
Qed.

Lemma push_req_pop : forall w c q m u r, push_req (upd_cl c (set_queue q) w) m u r = push_req w m u r.
Proof.
  intros. unfold push_req, base_req, upd_cl. simpl. destruct (Nat.eqb m c); reflexivity.
Qed.

Lemma offer_of_pop : forall w c q id u r, offer_of (upd_cl c (set_queue q) w) id u r = offer_of w id u r.
Proof.
  intros. unfold offer_of, upd_cl. simpl. destruct (Nat.eqb (uo_owner (w_up w u)) c); reflexivity.
Qed.

Theorem step_sends_only : forall w o, sends_only (step_sends w o) w (step w o).
Proof.
  intros w o. pose proof (benign_step_sends w o) as HB.
  assert (HBB : forall w', sends_only only_benign w w' -> sends_only (step_sends w o) w w').
  { intros w' H. eapply so_weaken; [|exact H]. apply only_benign_step_sends. }
  destruct o as [c m|c|c|i|u k]; simpl.
  - (* a message *)
    destruct (Nat.ltb c (w_n w) && negb (c_dead (w_cl w c))); [|apply so_refl].
    apply so_finish.
    destruct m as [g user pres op0|g|req|id req|id label replace s|id|id|id ok|dest|dest give];
      cbv beta iota zeta delta [handle_msg].
    + destruct (c_group (w_cl w c)); cbn [fst]; [apply so_refl|]. apply so_same. apply os_upd_cl. reflexivity.
    + destruct (in_group g (w_cl w c)); cbn [fst]; [apply so_same; apply os_leave_group|apply so_refl].
    + destruct (c_group (w_cl w c)); cbn [fst]; [|apply so_refl]. apply so_same.
      eapply os_trans; [apply (os_upd_cl c (set_req req)); reflexivity|apply os_enq_all].
    + destruct (get_down id (c_down (w_cl w c))); [|apply so_refl].
      destruct (c_group (w_cl w c)); cbn [fst]; [|apply so_refl]. apply so_same.
      eapply os_trans; [apply os_set_down_entry|apply os_enq].
    + destruct (Nat.eqb id 0); cbn [fst]; [apply so_refl|].
      destruct (c_present (w_cl w c)); cbn [fst].
      * apply so_got_offer. exact HB.
      * destruct (HB c) as [B1 [B2 B3]].
        eapply so_trans; [|apply so_send; exact B2]. eapply so_trans; [|apply so_send; apply B1].
        destruct (Nat.eqb replace 0); [apply so_refl|apply so_same; apply os_del_up_conn'].
    + destruct (Nat.eqb id 0); cbn [fst]; [apply so_refl|apply so_same; apply os_del_up_conn'].
    + destruct (Nat.eqb id 0); cbn [fst]; [apply so_refl|].
      apply so_close_down_conn; [exact HB|]. simpl. auto.
    + destruct (Nat.eqb id 0); cbn [fst]; [apply so_refl|].
      destruct (get_down id (c_down (w_cl w c))) as [d|] eqn:Eg; cbn [fst].
      * destruct (ok && d_havelocal d); cbn [fst].
        -- destruct (d_neg d); cbn [fst]; [|apply so_same; apply os_set_down_entry].
           eapply so_trans; [apply so_same; apply os_set_down_entry|].
           apply so_negotiate. intros _. destruct (get_down_in _ _ _ Eg) as [_ Hid].
           assert (E : offer_of (set_down_entry c (down_set_sig false true d) w)
                                (d_id (down_set_sig false true d)) (d_remote (down_set_sig false true d)) 0 =
                       offer_of w id (d_remote d) 0).
           { unfold offer_of. simpl d_id. simpl d_remote. rewrite Hid.
             change (w_up (set_down_entry c (down_set_sig false true d) w)) with (w_up w).
             autorewrite with sub. reflexivity. }
           rewrite E. simpl. repeat split. exists d. auto.
        -- apply so_close_down_conn; [exact HB|]. simpl. auto.
      * apply so_close_down_conn; [exact HB|]. simpl. auto.
    + destruct (HB c) as [_ [B2 _]].
      destruct (c_group (w_cl w c)); cbn [fst]; [|apply so_send; exact B2].
      destruct (c_op (w_cl w c) && member_of w _ dest); cbn [fst]; [apply so_same; apply os_enq|apply so_send; exact B2].
    + destruct (HB c) as [_ [B2 _]].
      destruct (c_group (w_cl w c)); cbn [fst]; [|apply so_send; exact B2].
      destruct (c_op (w_cl w c) && member_of w _ dest); cbn [fst]; [apply so_same; apply os_enq|apply so_send; exact B2].
  - (* one queued action *)
    destruct (Nat.ltb c (w_n w) && negb (c_dead (w_cl w c))); [|apply so_refl].
    destruct (c_queue (w_cl w c)) as [|a q] eqn:Eq; [apply so_refl|].
    apply so_finish.
    set (w0 := upd_cl c (set_queue q) w).
    assert (S0 : sends_only (step_sends w (OpPump c)) w w0).
    { apply so_same. apply os_upd_cl. reflexivity. }
    eapply so_trans; [exact S0|].
    destruct a as [g id up ts r|g t id|g give| |]; cbv beta iota zeta delta [handle_action].
    + destruct (in_group g (w_cl w0 c)) eqn:Hg; cbn [fst]; [|apply so_refl].
      assert (Hg' : c_group (w_cl w c) = Some g).
      { apply in_group_eq in Hg. revert Hg. unfold w0, upd_cl. simpl. rewrite Nat.eqb_refl. simpl. auto. }
      assert (D0 : c_down (w_cl w0 c) = c_down (w_cl w c)).
      { unfold w0, upd_cl. simpl. rewrite Nat.eqb_refl. reflexivity. }
      apply so_push_down_conn; [exact HB| | |].
      * intro H. simpl. split; [reflexivity|]. exists g, id, up, ts, r, q.
        split; [exact Eq|]. split; [exact Hg'|]. left. split; [reflexivity|].
        destruct H as [H|[u [H1 H2]]]; [left; exact H|right]. exists u. split; [exact H1|].
        unfold w0 in H2. rewrite push_req_pop in H2. exact H2.
      * intro Hr. simpl. split; [reflexivity|]. exists g, id, up, ts, r, q.
        split; [exact Eq|]. split; [exact Hg'|]. right. auto.
      * intros u x Hup Hsel Hx. unfold w0. rewrite offer_of_pop.
        change (w_up (upd_cl c (set_queue q) w)) with (w_up w).
        unfold offer_of at 1. cbn [step_sends]. split; [reflexivity|].
        subst up. unfold w0 in Hsel. rewrite push_req_pop in Hsel.
        exists g, id, u, ts, r, q.
        split; [exact Eq|]. split; [exact Hg'|]. split; [reflexivity|]. split; [exact Hsel|].
        exists x. split; [|reflexivity].
        destruct Hx as [Hx|[d [Hd1 Hd2]]]; [left; exact Hx|right]. exists d. rewrite <- D0. auto.
    + destruct (in_group g (w_cl w0 c)); cbn [fst]; [|apply so_refl].
      apply so_same. apply (os_reqconns_fold g t id).
    + destruct (in_group g (w_cl w0 c)); cbn [fst]; [|apply so_refl].
      apply so_same. eapply os_trans; [apply (os_upd_cl c (set_present give)); reflexivity|apply os_enq].
    + destruct (c_group (w_cl w0 c)); cbn [fst]; [|apply so_refl].
      destruct (c_present (w_cl w0 c)); cbn [fst]; [apply so_refl|].
      apply (so_unpresent_fold _ c). exact HB.
    + apply so_refl.
  - destruct (Nat.ltb c (w_n w) && negb (c_dead (w_cl w c))); [|apply so_refl].
    apply so_same. apply os_error_close.
  - destruct (nth_error (w_timers w) i); [|apply so_refl]. apply so_same.
    eapply os_trans; [apply os_set_timers|]. unfold fire_timer.
    destruct (uo_pushed _); [apply os_refl|].
    eapply os_trans; [apply os_upd_up|apply os_enq_all].
  - destruct (Nat.ltb u (w_nup w) && negb (uo_closed (w_up w u))); [|apply so_refl].
    destruct (c_group (w_cl w (uo_owner (w_up w u)))); [|apply so_same; apply os_upd_up].
    apply so_same. unfold new_timer. intro m. reflexivity.
Qed.

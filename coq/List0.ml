open Datatypes

(** val nth : nat -> 'a1 list -> 'a1 -> 'a1 **)

let rec nth n l default =
  match n with
  | O -> (match l with
          | [] -> default
          | x :: _ -> x)
  | S m -> (match l with
            | [] -> default
            | _ :: t -> nth m t default)

(** val firstn : nat -> 'a1 list -> 'a1 list **)

let rec firstn n l =
  match n with
  | O -> []
  | S n0 -> (match l with
             | [] -> []
             | a :: l0 -> a :: (firstn n0 l0))

(** val skipn : nat -> 'a1 list -> 'a1 list **)

let rec skipn n l =
  match n with
  | O -> l
  | S n0 -> (match l with
             | [] -> []
             | _ :: l0 -> skipn n0 l0)

(** val repeat : 'a1 -> nat -> 'a1 list **)

let rec repeat x = function
| O -> []
| S k -> x :: (repeat x k)

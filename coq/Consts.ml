open BinNums

(** val maxEntries : coq_Z **)

let maxEntries =
  Zpos (Coq_xO (Coq_xO (Coq_xO (Coq_xO (Coq_xO (Coq_xO (Coq_xO Coq_xH)))))))

(** val window : coq_Z **)

let window =
  Zpos (Coq_xO (Coq_xO (Coq_xO (Coq_xO (Coq_xO (Coq_xO (Coq_xO (Coq_xO
    (Coq_xO (Coq_xO (Coq_xO (Coq_xO (Coq_xO Coq_xH)))))))))))))

(** val retireAge : coq_Z **)

let retireAge =
  Zpos (Coq_xO (Coq_xO (Coq_xO (Coq_xO (Coq_xO (Coq_xO (Coq_xO (Coq_xO
    (Coq_xO (Coq_xO (Coq_xO (Coq_xO (Coq_xO (Coq_xO Coq_xH))))))))))))))

open BinInt
open BinNums
open Datatypes
open List0
open Word

(** val coq_BufSize : coq_Z **)

let coq_BufSize =
  Zpos (Coq_xO (Coq_xO (Coq_xO (Coq_xO (Coq_xO (Coq_xI (Coq_xI (Coq_xI
    (Coq_xI (Coq_xO Coq_xH))))))))))

type entry = { e_seq : coq_Z; e_lam : coq_Z; e_ts : coq_Z; e_buf : coq_Z list }

(** val zero_entry : entry **)

let zero_entry =
  { e_seq = Z0; e_lam = Z0; e_ts = Z0; e_buf = [] }

(** val e_length : entry -> coq_Z **)

let e_length e =
  Z.modulo e.e_lam (Zpos (Coq_xO (Coq_xO (Coq_xO (Coq_xO (Coq_xO (Coq_xO
    (Coq_xO (Coq_xO (Coq_xO (Coq_xO (Coq_xO (Coq_xO (Coq_xO (Coq_xO (Coq_xO
    Coq_xH))))))))))))))))

(** val e_marker : entry -> bool **)

let e_marker e =
  Z.leb (Zpos (Coq_xO (Coq_xO (Coq_xO (Coq_xO (Coq_xO (Coq_xO (Coq_xO (Coq_xO
    (Coq_xO (Coq_xO (Coq_xO (Coq_xO (Coq_xO (Coq_xO (Coq_xO
    Coq_xH)))))))))))))))) e.e_lam

type bitmap = { bm_valid : bool; bm_first : coq_Z; bm_bits : coq_Z }

type cache = { c_last : coq_Z; c_cycle : coq_Z; c_lastValid : bool;
               c_expected : coq_Z; c_totalExpected : coq_Z;
               c_received : coq_Z; c_totalReceived : coq_Z;
               c_keyframe : coq_Z; c_keyframeValid : bool; c_bitmap : 
               bitmap; c_tail : coq_Z; c_entries : entry list }

(** val new_cache : coq_Z -> cache **)

let new_cache capacity =
  { c_last = Z0; c_cycle = Z0; c_lastValid = false; c_expected = Z0;
    c_totalExpected = Z0; c_received = Z0; c_totalReceived = Z0; c_keyframe =
    Z0; c_keyframeValid = false; c_bitmap = { bm_valid = false; bm_first =
    Z0; bm_bits = Z0 }; c_tail = Z0; c_entries =
    (repeat zero_entry (Z.to_nat capacity)) }

(** val seqno_invalid : coq_Z -> coq_Z -> bool **)

let seqno_invalid seqno reference =
  if Z.ltb (cmp16 reference seqno) Z0
  then false
  else Z.ltb (Zpos (Coq_xO (Coq_xO (Coq_xO (Coq_xO (Coq_xO (Coq_xO (Coq_xO
         (Coq_xO Coq_xH))))))))) (w16 (Z.sub reference seqno))

(** val shr32 : coq_Z -> coq_Z -> coq_Z **)

let shr32 x s =
  if Z.ltb s (Zpos (Coq_xO (Coq_xO (Coq_xO (Coq_xO (Coq_xO Coq_xH))))))
  then Z.div x (Z.pow (Zpos (Coq_xO Coq_xH)) s)
  else Z0

(** val shl32 : coq_Z -> coq_Z -> coq_Z **)

let shl32 x s =
  if Z.ltb s (Zpos (Coq_xO (Coq_xO (Coq_xO (Coq_xO (Coq_xO Coq_xH))))))
  then w32 (Z.mul x (Z.pow (Zpos (Coq_xO Coq_xH)) s))
  else Z0

(** val trailing_ones : nat -> coq_Z -> coq_Z **)

let rec trailing_ones fuel x =
  match fuel with
  | O -> Z0
  | S f ->
    if Z.odd x
    then Z.add (Zpos Coq_xH)
           (trailing_ones f (Z.div x (Zpos (Coq_xO Coq_xH))))
    else Z0

(** val trailing_zeros : nat -> coq_Z -> coq_Z **)

let rec trailing_zeros fuel x =
  match fuel with
  | O -> Z0
  | S f ->
    if Z.odd x
    then Z0
    else Z.add (Zpos Coq_xH)
           (trailing_zeros f (Z.div x (Zpos (Coq_xO Coq_xH))))

(** val bm_set : bitmap -> coq_Z -> bitmap **)

let bm_set b seqno =
  if (||) (negb b.bm_valid) (seqno_invalid seqno b.bm_first)
  then { bm_valid = true; bm_first = seqno; bm_bits = (Zpos Coq_xH) }
  else if Z.ltb Z0 (cmp16 b.bm_first seqno)
       then b
       else let (first1, bits1) =
              if Z.leb (Zpos (Coq_xO (Coq_xO (Coq_xO (Coq_xO (Coq_xO
                   Coq_xH)))))) (w16 (Z.sub seqno b.bm_first))
              then let shift =
                     w16
                       (Z.sub (w16 (Z.sub seqno b.bm_first)) (Zpos (Coq_xI
                         (Coq_xI (Coq_xI (Coq_xI Coq_xH))))))
                   in
                   ((w16 (Z.add b.bm_first shift)), (shr32 b.bm_bits shift))
              else (b.bm_first, b.bm_bits)
            in
            let (first2, bits2) =
              if Z.odd bits1
              then let ones =
                     trailing_ones (S (S (S (S (S (S (S (S (S (S (S (S (S (S
                       (S (S (S (S (S (S (S (S (S (S (S (S (S (S (S (S (S (S
                       O)))))))))))))))))))))))))))))))) bits1
                   in
                   ((w16 (Z.add first1 ones)), (shr32 bits1 ones))
              else (first1, bits1)
            in
            { bm_valid = true; bm_first = first2; bm_bits =
            (Z.coq_lor bits2 (shl32 (Zpos Coq_xH) (w16 (Z.sub seqno first2)))) }

(** val bm_get : bitmap -> coq_Z -> ((bool * coq_Z) * coq_Z) * bitmap **)

let bm_get b next =
  let first = b.bm_first in
  if Z.leb Z0 (cmp16 first next)
  then (((false, first), Z0), b)
  else let count0 = w16 (Z.sub next first) in
       let count =
         if Z.ltb (Zpos (Coq_xI (Coq_xO (Coq_xO (Coq_xO Coq_xH))))) count0
         then Zpos (Coq_xI (Coq_xO (Coq_xO (Coq_xO Coq_xH))))
         else count0
       in
       let bm =
         Z.sub (Z.sub (Z.pow (Zpos (Coq_xO Coq_xH)) count) (Zpos Coq_xH))
           (Z.modulo b.bm_bits (Z.pow (Zpos (Coq_xO Coq_xH)) count))
       in
       let b' = { bm_valid = b.bm_valid; bm_first =
         (w16 (Z.add first count)); bm_bits =
         (Z.div b.bm_bits (Z.pow (Zpos (Coq_xO Coq_xH)) count)) }
       in
       if Z.eqb bm Z0
       then (((false, first), Z0), b')
       else let (bm1, first1) =
              if Z.odd bm
              then (bm, first)
              else let c =
                     trailing_zeros (S (S (S (S (S (S (S (S (S (S (S (S (S (S
                       (S (S (S (S (S (S (S (S (S (S (S (S (S (S (S (S (S (S
                       O)))))))))))))))))))))))))))))))) bm
                   in
                   ((Z.div bm (Z.pow (Zpos (Coq_xO Coq_xH)) c)),
                   (w16 (Z.add first c)))
            in
            (((true, first1), (w16 (Z.div bm1 (Zpos (Coq_xO Coq_xH))))), b')

(** val set_nth : nat -> 'a1 -> 'a1 list -> 'a1 list **)

let rec set_nth n x = function
| [] -> []
| h :: t -> (match n with
             | O -> x :: t
             | S n' -> h :: (set_nth n' x t))

(** val zlen : 'a1 list -> coq_Z **)

let zlen l =
  Z.of_nat (length l)

(** val store :
    cache -> coq_Z -> coq_Z -> bool -> bool -> coq_Z list ->
    (coq_Z * coq_Z) * cache **)

let store c seqno ts kf marker buf =
  let (p, kfValid0) =
    if (||) (negb c.c_lastValid) (seqno_invalid seqno c.c_last)
    then (((((seqno, c.c_cycle), true),
           (w32 (Z.add c.c_expected (Zpos Coq_xH)))),
           (w32 (Z.add c.c_received (Zpos Coq_xH)))), c.c_keyframeValid)
    else let cmp = cmp16 c.c_last seqno in
         if Z.ltb cmp Z0
         then (((((seqno,
                (if Z.ltb seqno c.c_last
                 then w16 (Z.add c.c_cycle (Zpos Coq_xH))
                 else c.c_cycle)), true),
                (w32 (Z.add c.c_expected (w16 (Z.sub seqno c.c_last))))),
                (w32 (Z.add c.c_received (Zpos Coq_xH)))),
                (if (&&) c.c_keyframeValid
                      (Z.ltb Z0 (cmp16 c.c_keyframe seqno))
                 then false
                 else c.c_keyframeValid))
         else if Z.ltb Z0 cmp
              then (((((c.c_last, c.c_cycle), true), c.c_expected),
                     (if Z.ltb c.c_received c.c_expected
                      then w32 (Z.add c.c_received (Zpos Coq_xH))
                      else c.c_received)), c.c_keyframeValid)
              else (((((c.c_last, c.c_cycle), true), c.c_expected),
                     c.c_received), c.c_keyframeValid)
  in
  let (p0, received) = p in
  let (p1, expected) = p0 in
  let (p2, lastValid) = p1 in
  let (last, cycle) = p2 in
  let bmap = bm_set c.c_bitmap seqno in
  if kf
  then let kfValid = true in
       let i = c.c_tail in
       let lam =
         if marker
         then Z.coq_lor (w16 (zlen buf)) (Zpos (Coq_xO (Coq_xO (Coq_xO
                (Coq_xO (Coq_xO (Coq_xO (Coq_xO (Coq_xO (Coq_xO (Coq_xO
                (Coq_xO (Coq_xO (Coq_xO (Coq_xO (Coq_xO Coq_xH))))))))))))))))
         else w16 (zlen buf)
       in
       let e = { e_seq = seqno; e_lam = lam; e_ts = ts; e_buf =
         (firstn (Z.to_nat coq_BufSize) buf) }
       in
       let entries = set_nth (Z.to_nat i) e c.c_entries in
       let tail = Z.modulo (Z.add i (Zpos Coq_xH)) (zlen c.c_entries) in
       ((bmap.bm_first, i), { c_last = last; c_cycle = cycle; c_lastValid =
       lastValid; c_expected = expected; c_totalExpected = c.c_totalExpected;
       c_received = received; c_totalReceived = c.c_totalReceived;
       c_keyframe = seqno; c_keyframeValid = kfValid; c_bitmap = bmap;
       c_tail = tail; c_entries = entries })
  else let kfSeq = c.c_keyframe in
       let i = c.c_tail in
       let lam =
         if marker
         then Z.coq_lor (w16 (zlen buf)) (Zpos (Coq_xO (Coq_xO (Coq_xO
                (Coq_xO (Coq_xO (Coq_xO (Coq_xO (Coq_xO (Coq_xO (Coq_xO
                (Coq_xO (Coq_xO (Coq_xO (Coq_xO (Coq_xO Coq_xH))))))))))))))))
         else w16 (zlen buf)
       in
       let e = { e_seq = seqno; e_lam = lam; e_ts = ts; e_buf =
         (firstn (Z.to_nat coq_BufSize) buf) }
       in
       let entries = set_nth (Z.to_nat i) e c.c_entries in
       let tail = Z.modulo (Z.add i (Zpos Coq_xH)) (zlen c.c_entries) in
       ((bmap.bm_first, i), { c_last = last; c_cycle = cycle; c_lastValid =
       lastValid; c_expected = expected; c_totalExpected = c.c_totalExpected;
       c_received = received; c_totalReceived = c.c_totalReceived;
       c_keyframe = kfSeq; c_keyframeValid = kfValid0; c_bitmap = bmap;
       c_tail = tail; c_entries = entries })

(** val expect : cache -> coq_Z -> cache **)

let expect c n =
  if Z.leb n Z0
  then c
  else { c_last = c.c_last; c_cycle = c.c_cycle; c_lastValid = c.c_lastValid;
         c_expected = (w32 (Z.add c.c_expected (w32 n))); c_totalExpected =
         c.c_totalExpected; c_received = c.c_received; c_totalReceived =
         c.c_totalReceived; c_keyframe = c.c_keyframe; c_keyframeValid =
         c.c_keyframeValid; c_bitmap = c.c_bitmap; c_tail = c.c_tail;
         c_entries = c.c_entries }

(** val get_entries :
    coq_Z -> entry list -> ((coq_Z * coq_Z) * bool) * coq_Z list **)

let rec get_entries seqno = function
| [] -> (((Z0, Z0), false), [])
| e :: es' ->
  if (||) (Z.eqb e.e_lam Z0) (negb (Z.eqb e.e_seq seqno))
  then get_entries seqno es'
  else ((((e_length e), e.e_ts), (e_marker e)),
         (firstn (Z.to_nat (e_length e)) e.e_buf))

(** val get : cache -> coq_Z -> coq_Z * coq_Z list **)

let get c seqno =
  let (p, bytes) = get_entries seqno c.c_entries in
  let (p0, _) = p in
  let (n, _) = p0 in if Z.ltb Z0 n then (n, bytes) else (Z0, [])

(** val get_at : cache -> coq_Z -> coq_Z -> coq_Z * coq_Z list **)

let get_at c seqno index =
  if Z.leb (zlen c.c_entries) index
  then (Z0, [])
  else let e = nth (Z.to_nat index) c.c_entries zero_entry in
       if negb (Z.eqb e.e_seq seqno)
       then (Z0, [])
       else ((e_length e), (firstn (Z.to_nat (e_length e)) e.e_buf))

(** val c_lastq : cache -> coq_Z * bool **)

let c_lastq c =
  if c.c_lastValid then (c.c_last, true) else (Z0, false)

(** val c_keyframeq : cache -> coq_Z * bool **)

let c_keyframeq c =
  if c.c_keyframeValid then (c.c_keyframe, true) else (Z0, false)

(** val with_entries : cache -> coq_Z -> entry list -> cache **)

let with_entries c tail es =
  { c_last = c.c_last; c_cycle = c.c_cycle; c_lastValid = c.c_lastValid;
    c_expected = c.c_expected; c_totalExpected = c.c_totalExpected;
    c_received = c.c_received; c_totalReceived = c.c_totalReceived;
    c_keyframe = c.c_keyframe; c_keyframeValid = c.c_keyframeValid;
    c_bitmap = c.c_bitmap; c_tail = tail; c_entries = es }

(** val resize : cache -> coq_Z -> cache **)

let resize c capacity =
  let es = c.c_entries in
  let len = zlen es in
  let tail = c.c_tail in
  if Z.eqb len capacity
  then c
  else if Z.ltb len capacity
       then with_entries c tail
              (app (firstn (Z.to_nat tail) es)
                (app (repeat zero_entry (Z.to_nat (Z.sub capacity len)))
                  (skipn (Z.to_nat tail) es)))
       else if Z.ltb tail capacity
            then with_entries c tail
                   (app (firstn (Z.to_nat tail) es)
                     (skipn (Z.to_nat (Z.sub (Z.add tail len) capacity)) es))
            else with_entries c Z0
                   (firstn (Z.to_nat capacity)
                     (skipn (Z.to_nat (Z.sub tail capacity)) es))

(** val resize_cond : cache -> coq_Z -> bool * cache **)

let resize_cond c capacity =
  let current = zlen c.c_entries in
  if (&&)
       (Z.leb
         (Z.div (Z.mul capacity (Zpos (Coq_xI Coq_xH))) (Zpos (Coq_xO (Coq_xO
           Coq_xH)))) current)
       (Z.ltb current (Z.mul capacity (Zpos (Coq_xO Coq_xH))))
  then (false, c)
  else if (&&) (Z.ltb capacity current) (Z.ltb capacity c.c_tail)
       then (false, c)
       else (true, (resize c capacity))

type stats = { s_received : coq_Z; s_totalReceived : coq_Z;
               s_expected : coq_Z; s_totalExpected : coq_Z; s_eseqno : 
               coq_Z }

(** val get_stats : cache -> bool -> stats * cache **)

let get_stats c reset =
  let s = { s_received = c.c_received; s_totalReceived =
    (w32 (Z.add c.c_totalReceived c.c_received)); s_expected = c.c_expected;
    s_totalExpected = (w32 (Z.add c.c_totalExpected c.c_expected));
    s_eseqno =
    (Z.add
      (Z.mul c.c_cycle (Zpos (Coq_xO (Coq_xO (Coq_xO (Coq_xO (Coq_xO (Coq_xO
        (Coq_xO (Coq_xO (Coq_xO (Coq_xO (Coq_xO (Coq_xO (Coq_xO (Coq_xO
        (Coq_xO (Coq_xO Coq_xH)))))))))))))))))) c.c_last) }
  in
  if reset
  then (s, { c_last = c.c_last; c_cycle = c.c_cycle; c_lastValid =
         c.c_lastValid; c_expected = Z0; c_totalExpected =
         (w32 (Z.add c.c_totalExpected c.c_expected)); c_received = Z0;
         c_totalReceived = (w32 (Z.add c.c_totalReceived c.c_received));
         c_keyframe = c.c_keyframe; c_keyframeValid = c.c_keyframeValid;
         c_bitmap = c.c_bitmap; c_tail = c.c_tail; c_entries = c.c_entries })
  else (s, c)

(** val bitmap_get : cache -> coq_Z -> ((bool * coq_Z) * coq_Z) * cache **)

let bitmap_get c next =
  let (r, b) = bm_get c.c_bitmap next in
  (r, { c_last = c.c_last; c_cycle = c.c_cycle; c_lastValid = c.c_lastValid;
  c_expected = c.c_expected; c_totalExpected = c.c_totalExpected;
  c_received = c.c_received; c_totalReceived = c.c_totalReceived;
  c_keyframe = c.c_keyframe; c_keyframeValid = c.c_keyframeValid; c_bitmap =
  b; c_tail = c.c_tail; c_entries = c.c_entries })

(** val to_bitmap_loop :
    coq_Z -> coq_Z -> coq_Z list -> coq_Z * coq_Z list **)

let rec to_bitmap_loop first bitmap0 remain = match remain with
| [] -> (bitmap0, [])
| s :: rest ->
  let delta = w16 (Z.sub (Z.sub s first) (Zpos Coq_xH)) in
  if Z.leb (Zpos (Coq_xO (Coq_xO (Coq_xO (Coq_xO Coq_xH))))) delta
  then (bitmap0, remain)
  else to_bitmap_loop first
         (Z.coq_lor bitmap0 (Z.pow (Zpos (Coq_xO Coq_xH)) delta)) rest

(** val to_bitmap : coq_Z list -> ((coq_Z * coq_Z) * coq_Z list) option **)

let to_bitmap = function
| [] -> None
| first :: rest ->
  let (bm, remain) = to_bitmap_loop first Z0 rest in
  Some ((first, bm), remain)

type op =
| OStore of coq_Z * coq_Z * bool * bool * coq_Z list
| OGet of coq_Z
| OGetAt of coq_Z * coq_Z
| OResize of coq_Z
| OResizeCond of coq_Z
| OLast
| OKeyframe
| OBitmapGet of coq_Z
| OExpect of coq_Z
| OGetStats of bool

type out =
| RStore of coq_Z * coq_Z
| RGet of coq_Z * coq_Z list
| RUnit
| RBool of bool
| RSeqOk of coq_Z * bool
| RBitmap of bool * coq_Z * coq_Z
| RStats of stats

(** val step : cache -> op -> cache * out **)

let step c = function
| OStore (s, ts, kf, m, buf) ->
  let (p, c') = store c s ts kf m buf in
  let (f, i) = p in (c', (RStore (f, i)))
| OGet s -> let (n, b) = get c s in (c, (RGet (n, b)))
| OGetAt (s, i) -> let (n, b) = get_at c s i in (c, (RGet (n, b)))
| OResize k -> ((resize c k), RUnit)
| OResizeCond k -> let (b, c') = resize_cond c k in (c', (RBool b))
| OLast -> let (s, ok) = c_lastq c in (c, (RSeqOk (s, ok)))
| OKeyframe -> let (s, ok) = c_keyframeq c in (c, (RSeqOk (s, ok)))
| OBitmapGet n ->
  let (p, c') = bitmap_get c n in
  let (p0, b) = p in let (fd, f) = p0 in (c', (RBitmap (fd, f, b)))
| OExpect n -> ((expect c n), RUnit)
| OGetStats r -> let (s, c') = get_stats c r in (c', (RStats s))

open BinInt
open BinNums

(** val w16 : coq_Z -> coq_Z **)

let w16 x =
  Z.modulo x (Zpos (Coq_xO (Coq_xO (Coq_xO (Coq_xO (Coq_xO (Coq_xO (Coq_xO
    (Coq_xO (Coq_xO (Coq_xO (Coq_xO (Coq_xO (Coq_xO (Coq_xO (Coq_xO (Coq_xO
    Coq_xH)))))))))))))))))

(** val w32 : coq_Z -> coq_Z **)

let w32 x =
  Z.modulo x (Zpos (Coq_xO (Coq_xO (Coq_xO (Coq_xO (Coq_xO (Coq_xO (Coq_xO
    (Coq_xO (Coq_xO (Coq_xO (Coq_xO (Coq_xO (Coq_xO (Coq_xO (Coq_xO (Coq_xO
    (Coq_xO (Coq_xO (Coq_xO (Coq_xO (Coq_xO (Coq_xO (Coq_xO (Coq_xO (Coq_xO
    (Coq_xO (Coq_xO (Coq_xO (Coq_xO (Coq_xO (Coq_xO (Coq_xO
    Coq_xH)))))))))))))))))))))))))))))))))

(** val cmp16 : coq_Z -> coq_Z -> coq_Z **)

let cmp16 s1 s2 =
  if Z.eqb s1 s2
  then Z0
  else if Z.leb (Zpos (Coq_xO (Coq_xO (Coq_xO (Coq_xO (Coq_xO (Coq_xO (Coq_xO
            (Coq_xO (Coq_xO (Coq_xO (Coq_xO (Coq_xO (Coq_xO (Coq_xO (Coq_xO
            Coq_xH)))))))))))))))) (w16 (Z.sub s2 s1))
       then Zpos Coq_xH
       else Zneg Coq_xH

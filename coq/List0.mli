open Datatypes

val nth : nat -> 'a1 list -> 'a1 -> 'a1

val firstn : nat -> 'a1 list -> 'a1 list

val skipn : nat -> 'a1 list -> 'a1 list

val repeat : 'a1 -> nat -> 'a1 list

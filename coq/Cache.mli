open BinInt
open BinNums
open Datatypes
open List0
open Word

val coq_BufSize : coq_Z

type entry = { e_seq : coq_Z; e_lam : coq_Z; e_ts : coq_Z; e_buf : coq_Z list }

val zero_entry : entry

val e_length : entry -> coq_Z

val e_marker : entry -> bool

type bitmap = { bm_valid : bool; bm_first : coq_Z; bm_bits : coq_Z }

type cache = { c_last : coq_Z; c_cycle : coq_Z; c_lastValid : bool;
               c_expected : coq_Z; c_totalExpected : coq_Z;
               c_received : coq_Z; c_totalReceived : coq_Z;
               c_keyframe : coq_Z; c_keyframeValid : bool; c_bitmap : 
               bitmap; c_tail : coq_Z; c_entries : entry list }

val new_cache : coq_Z -> cache

val seqno_invalid : coq_Z -> coq_Z -> bool

val shr32 : coq_Z -> coq_Z -> coq_Z

val shl32 : coq_Z -> coq_Z -> coq_Z

val trailing_ones : nat -> coq_Z -> coq_Z

val trailing_zeros : nat -> coq_Z -> coq_Z

val bm_set : bitmap -> coq_Z -> bitmap

val bm_get : bitmap -> coq_Z -> ((bool * coq_Z) * coq_Z) * bitmap

val set_nth : nat -> 'a1 -> 'a1 list -> 'a1 list

val zlen : 'a1 list -> coq_Z

val store :
  cache -> coq_Z -> coq_Z -> bool -> bool -> coq_Z list ->
  (coq_Z * coq_Z) * cache

val expect : cache -> coq_Z -> cache

val get_entries : coq_Z -> entry list -> ((coq_Z * coq_Z) * bool) * coq_Z list

val get : cache -> coq_Z -> coq_Z * coq_Z list

val get_at : cache -> coq_Z -> coq_Z -> coq_Z * coq_Z list

val c_lastq : cache -> coq_Z * bool

val c_keyframeq : cache -> coq_Z * bool

val with_entries : cache -> coq_Z -> entry list -> cache

val resize : cache -> coq_Z -> cache

val resize_cond : cache -> coq_Z -> bool * cache

type stats = { s_received : coq_Z; s_totalReceived : coq_Z;
               s_expected : coq_Z; s_totalExpected : coq_Z; s_eseqno : 
               coq_Z }

val get_stats : cache -> bool -> stats * cache

val bitmap_get : cache -> coq_Z -> ((bool * coq_Z) * coq_Z) * cache

val to_bitmap_loop : coq_Z -> coq_Z -> coq_Z list -> coq_Z * coq_Z list

val to_bitmap : coq_Z list -> ((coq_Z * coq_Z) * coq_Z list) option

type op =
| OStore of coq_Z * coq_Z * bool * bool * coq_Z list
| OGet of coq_Z
| OGetAt of coq_Z * coq_Z
| OResize of coq_Z
| OResizeCond of coq_Z
| OLast
| OKeyframe
| OBitmapGet of coq_Z
| OExpect of coq_Z
| OGetStats of bool

type out =
| RStore of coq_Z * coq_Z
| RGet of coq_Z * coq_Z list
| RUnit
| RBool of bool
| RSeqOk of coq_Z * bool
| RBitmap of bool * coq_Z * coq_Z
| RStats of stats

val step : cache -> op -> cache * out

open BinNums

val maxEntries : coq_Z

val window : coq_Z

val retireAge : coq_Z

open BinInt
open BinNums
open Consts
open Datatypes
open List0
open Word

type entry = { e_first : coq_Z; e_count : coq_Z; e_delta : coq_Z;
               e_pidDelta : coq_Z }

type pmap = { m_started : bool; m_next : coq_Z; m_nextPid : coq_Z;
              m_delta : coq_Z; m_pidDelta : coq_Z; m_lastEntry : coq_Z;
              m_entries : entry list option }

(** val pm_init : pmap **)

let pm_init =
  { m_started = false; m_next = Z0; m_nextPid = Z0; m_delta = Z0;
    m_pidDelta = Z0; m_lastEntry = Z0; m_entries = None }

(** val entries_of : pmap -> entry list **)

let entries_of m =
  match m.m_entries with
  | Some l -> l
  | None -> []

(** val zlen : 'a1 list -> coq_Z **)

let zlen l =
  Z.of_nat (length l)

(** val nth_e : entry list -> coq_Z -> entry **)

let nth_e l i =
  nth (Z.to_nat i) l { e_first = Z0; e_count = Z0; e_delta = Z0; e_pidDelta =
    Z0 }

(** val set_nth : nat -> 'a1 -> 'a1 list -> 'a1 list **)

let rec set_nth n x = function
| [] -> []
| h :: t -> (match n with
             | O -> x :: t
             | S n' -> h :: (set_nth n' x t))

(** val pm_reset : pmap -> pmap **)

let pm_reset m =
  { m_started = m.m_started; m_next = Z0; m_nextPid = Z0; m_delta = Z0;
    m_pidDelta = Z0; m_lastEntry = Z0; m_entries = None }

(** val pm_retire : pmap -> pmap **)

let pm_retire m =
  let es = entries_of m in
  if Z.eqb (zlen es) Z0
  then m
  else let e = nth_e es m.m_lastEntry in
       if Z.ltb (w16 (Z.sub m.m_next e.e_first)) retireAge
       then m
       else let first = w16 (Z.sub m.m_next window) in
            let end_ = w16 (Z.add e.e_first e.e_count) in
            let e' =
              if Z.leb (cmp16 end_ first) Z0
              then { e_first = m.m_next; e_count = Z0; e_delta = m.m_delta;
                     e_pidDelta = m.m_pidDelta }
              else { e_first = first; e_count = (w16 (Z.sub end_ first));
                     e_delta = e.e_delta; e_pidDelta = e.e_pidDelta }
            in
            { m_started = m.m_started; m_next = m.m_next; m_nextPid =
            m.m_nextPid; m_delta = m.m_delta; m_pidDelta = m.m_pidDelta;
            m_lastEntry = Z0; m_entries = (Some (e' :: [])) }

(** val add_mapping : pmap -> coq_Z -> coq_Z -> coq_Z -> pmap **)

let add_mapping m seqno delta pidDelta =
  let es = entries_of m in
  if Z.eqb (zlen es) Z0
  then m
  else let i = m.m_lastEntry in
       let ei = nth_e es i in
       if (&&) (Z.eqb delta ei.e_delta) (Z.eqb pidDelta ei.e_pidDelta)
       then let ei' = { e_first = ei.e_first; e_count =
              (w16 (Z.add (Z.sub seqno ei.e_first) (Zpos Coq_xH))); e_delta =
              ei.e_delta; e_pidDelta = ei.e_pidDelta }
            in
            { m_started = m.m_started; m_next = m.m_next; m_nextPid =
            m.m_nextPid; m_delta = m.m_delta; m_pidDelta = m.m_pidDelta;
            m_lastEntry = i; m_entries = (Some
            (set_nth (Z.to_nat i) ei' es)) }
       else let d = w16 (Z.sub ei.e_delta delta) in
            let f =
              if Z.ltb d window
              then let ff = w16 (Z.add (Z.add ei.e_first ei.e_count) d) in
                   if Z.ltb (cmp16 ff seqno) Z0 then ff else seqno
              else seqno
            in
            let e = { e_first = f; e_count =
              (w16 (Z.add (Z.sub seqno f) (Zpos Coq_xH))); e_delta = delta;
              e_pidDelta = pidDelta }
            in
            if Z.ltb (zlen es) maxEntries
            then { m_started = m.m_started; m_next = m.m_next; m_nextPid =
                   m.m_nextPid; m_delta = m.m_delta; m_pidDelta =
                   m.m_pidDelta; m_lastEntry = (zlen es); m_entries = (Some
                   (app es (e :: []))) }
            else let j = Z.modulo (Z.add i (Zpos Coq_xH)) maxEntries in
                 { m_started = m.m_started; m_next = m.m_next; m_nextPid =
                 m.m_nextPid; m_delta = m.m_delta; m_pidDelta = m.m_pidDelta;
                 m_lastEntry = j; m_entries = (Some
                 (set_nth (Z.to_nat j) e es)) }

(** val walk :
    nat -> entry list -> coq_Z -> coq_Z -> coq_Z -> (entry -> coq_Z) ->
    (entry -> coq_Z) -> (coq_Z * coq_Z) option **)

let rec walk fuel es last i seqno base res =
  match fuel with
  | O -> None
  | S fuel' ->
    let e = nth_e es i in
    let f = base e in
    if Z.leb Z0 (cmp16 seqno f)
    then if Z.ltb (cmp16 seqno (w16 (Z.add f e.e_count))) Z0
         then Some ((res e), e.e_pidDelta)
         else None
    else let i' =
           if Z.ltb Z0 i
           then Z.sub i (Zpos Coq_xH)
           else Z.sub (zlen es) (Zpos Coq_xH)
         in
         if Z.eqb i' last then None else walk fuel' es last i' seqno base res

(** val pm_direct : pmap -> coq_Z -> (coq_Z * coq_Z) option **)

let pm_direct m seqno =
  let es = entries_of m in
  if Z.eqb (zlen es) Z0
  then None
  else walk (length es) es m.m_lastEntry m.m_lastEntry seqno (fun e ->
         e.e_first) (fun e -> w16 (Z.add seqno e.e_delta))

(** val triple : (coq_Z * coq_Z) option -> (bool * coq_Z) * coq_Z **)

let triple = function
| Some p0 -> let (s, p) = p0 in ((true, s), p)
| None -> ((false, Z0), Z0)

(** val pm_map : pmap -> coq_Z -> coq_Z -> ((bool * coq_Z) * coq_Z) * pmap **)

let pm_map m seqno pid =
  let pristine =
    (&&) (Z.eqb m.m_delta Z0)
      (match m.m_entries with
       | Some _ -> false
       | None -> true)
  in
  if pristine
  then if (||) ((||) (negb m.m_started) (Z.leb (cmp16 m.m_next seqno) Z0))
            (Z.ltb window (w16 (Z.sub m.m_next seqno)))
       then (((true, seqno), Z0), { m_started = true; m_next =
              (w16 (Z.add seqno (Zpos Coq_xH))); m_nextPid = pid; m_delta =
              m.m_delta; m_pidDelta = m.m_pidDelta; m_lastEntry =
              m.m_lastEntry; m_entries = m.m_entries })
       else (((true, seqno), Z0), m)
  else if Z.leb (cmp16 m.m_next seqno) Z0
       then if Z.ltb window (w16 (Z.sub seqno m.m_next))
            then let m1 = pm_reset m in
                 (((true, seqno), Z0), { m_started = m1.m_started; m_next =
                 (w16 (Z.add seqno (Zpos Coq_xH))); m_nextPid = pid;
                 m_delta = Z0; m_pidDelta = Z0; m_lastEntry = Z0; m_entries =
                 None })
            else let m0 = pm_retire m in
                 let m1 = add_mapping m0 seqno m0.m_delta m0.m_pidDelta in
                 (((true, (w16 (Z.add seqno m1.m_delta))), m1.m_pidDelta),
                 { m_started = m1.m_started; m_next =
                 (w16 (Z.add seqno (Zpos Coq_xH))); m_nextPid = pid;
                 m_delta = m1.m_delta; m_pidDelta = m1.m_pidDelta;
                 m_lastEntry = m1.m_lastEntry; m_entries = m1.m_entries })
       else if Z.ltb window (w16 (Z.sub m.m_next seqno))
            then let m1 = pm_reset m in
                 (((true, seqno), Z0), { m_started = m1.m_started; m_next =
                 (w16 (Z.add seqno (Zpos Coq_xH))); m_nextPid = pid;
                 m_delta = Z0; m_pidDelta = Z0; m_lastEntry = Z0; m_entries =
                 None })
            else ((triple (pm_direct m seqno)), m)

(** val pm_reverse : pmap -> coq_Z -> (bool * coq_Z) * coq_Z **)

let pm_reverse m seqno =
  match m.m_entries with
  | Some es ->
    if Z.eqb (zlen es) Z0
    then ((false, Z0), Z0)
    else triple
           (walk (length es) es m.m_lastEntry m.m_lastEntry seqno (fun e ->
             w16 (Z.add e.e_first e.e_delta)) (fun e ->
             w16 (Z.sub seqno e.e_delta)))
  | None ->
    if Z.eqb m.m_delta Z0 then ((true, seqno), Z0) else ((false, Z0), Z0)

(** val pm_drop : pmap -> coq_Z -> coq_Z -> bool * pmap **)

let pm_drop m seqno pid =
  if negb (Z.eqb seqno m.m_next)
  then (false, m)
  else let es0 =
         if Z.eqb (zlen (entries_of m)) Z0
         then Some ({ e_first = (w16 (Z.sub seqno window)); e_count = window;
                e_delta = Z0; e_pidDelta = Z0 } :: [])
         else m.m_entries
       in
       let m0 =
         pm_retire { m_started = m.m_started; m_next = m.m_next; m_nextPid =
           m.m_nextPid; m_delta = m.m_delta; m_pidDelta = m.m_pidDelta;
           m_lastEntry = m.m_lastEntry; m_entries = es0 }
       in
       (true, { m_started = m0.m_started; m_next =
       (w16 (Z.add seqno (Zpos Coq_xH))); m_nextPid = pid; m_delta =
       (w16 (Z.sub m0.m_delta (Zpos Coq_xH))); m_pidDelta =
       (w16 (Z.add m0.m_pidDelta (Z.sub pid m0.m_nextPid))); m_lastEntry =
       m0.m_lastEntry; m_entries = m0.m_entries })

type op =
| OMap of coq_Z * coq_Z
| ODrop of coq_Z * coq_Z
| OReverse of coq_Z

type out =
| RTriple of bool * coq_Z * coq_Z
| RBool of bool

(** val step : pmap -> op -> pmap * out **)

let step m = function
| OMap (s, p) ->
  let (p0, m') = pm_map m s p in
  let (p1, p') = p0 in let (ok, s') = p1 in (m', (RTriple (ok, s', p')))
| ODrop (s, p) -> let (ok, m') = pm_drop m s p in (m', (RBool ok))
| OReverse s ->
  let (p, p') = pm_reverse m s in
  let (ok, s') = p in (m, (RTriple (ok, s', p')))

open BinInt
open BinNums

val w16 : coq_Z -> coq_Z

val w32 : coq_Z -> coq_Z

val cmp16 : coq_Z -> coq_Z -> coq_Z

open BinInt
open BinNums
open Consts
open Datatypes
open List0
open Word

type entry = { e_first : coq_Z; e_count : coq_Z; e_delta : coq_Z;
               e_pidDelta : coq_Z }

type pmap = { m_started : bool; m_next : coq_Z; m_nextPid : coq_Z;
              m_delta : coq_Z; m_pidDelta : coq_Z; m_lastEntry : coq_Z;
              m_entries : entry list option }

val pm_init : pmap

val entries_of : pmap -> entry list

val zlen : 'a1 list -> coq_Z

val nth_e : entry list -> coq_Z -> entry

val set_nth : nat -> 'a1 -> 'a1 list -> 'a1 list

val pm_reset : pmap -> pmap

val pm_retire : pmap -> pmap

val add_mapping : pmap -> coq_Z -> coq_Z -> coq_Z -> pmap

val walk :
  nat -> entry list -> coq_Z -> coq_Z -> coq_Z -> (entry -> coq_Z) -> (entry
  -> coq_Z) -> (coq_Z * coq_Z) option

val pm_direct : pmap -> coq_Z -> (coq_Z * coq_Z) option

val triple : (coq_Z * coq_Z) option -> (bool * coq_Z) * coq_Z

val pm_map : pmap -> coq_Z -> coq_Z -> ((bool * coq_Z) * coq_Z) * pmap

val pm_reverse : pmap -> coq_Z -> (bool * coq_Z) * coq_Z

val pm_drop : pmap -> coq_Z -> coq_Z -> bool * pmap

type op =
| OMap of coq_Z * coq_Z
| ODrop of coq_Z * coq_Z
| OReverse of coq_Z

type out =
| RTriple of bool * coq_Z * coq_Z
| RBool of bool

val step : pmap -> op -> pmap * out
